"""C08 — stationary preconditioners apply exactly their defining operator.

Static rules over the resolved program (clang front end facts; nothing is executed):

 * E0.factory-instantiable   every documented new_*_precond factory overload type-checks
 * E2.sweep-triangular       SOR/SSOR sweeps (CSR, BCSR): triangular guard, segment start, diagonal at the stopping
                             position, products pair val[k] with out[col_ind[k]]
 * E6.sweep-form             row update of each sweep equals the SOR / SSOR formula (omega placement), sweep set per class
 * E6.omega-scale            SSOR result scaled by omega*(2-omega) exactly once, SOR not scaled
 * E2.ilu-solve              solve_il / solve_du: direction, array family, row update
 * E4.ilu-level-fold         ILU(p) level-of-fill recurrence: duplicate insertion folds with min, level = lev(L)+lev(U)+1, keep iff <= p
 * E3.merge-cursor           cursors of the sorted-row merges in factorize_numeric_il_du advance only over consumed / matched entries
 * E8.ilu-init-order         set_struct -> factorize_symbolic -> alloc_data;  copy_data -> factorize_numeric; apply: L then DU
 * E7.filter-follows         every normal exit of apply() is preceded by _filter.filter_cor(out), nothing writes out afterwards
 * E7.output-defined         out is defined (not read) first on every path; E7.input-const: input never written
 * E7.wrapper-delegates      SOR/SSOR/ILU front classes forward every operation to the same operation of the implementation
 * E8.refresh-covers         ILU copy_data_*: every slot of L, D, U (fill-in positions included) is assigned on every path
 * E6.ilu-factor-form        operand order of the numeric ILU factorisation (L_ij D_jj^-1, X - L_ij U_jk), scalar and blocked
 * E8.partial-fill-reinit    Vanka: the dense local-matrix array filled by gather routines is re-zeroed on every init_numeric
 * E8.numeric-refresh        every member read by apply() that is computed from matrix values is freshly rewritten on every
                             path through init_numeric;  E8.symbolic-structure-only: init_symbolic reads no matrix values
 * E5.operator-form          Jacobi / Polynomial / Scale / Diagonal / Matrix: apply() as a symbolic linear operator equals
                             the documented one (omega once, Neumann recurrence, iteration count)

Not decided: numerical equality with dense solves, the cursor / sorted-insertion mechanics of factorize_symbolic/_insert
(only the level recurrence is decided) and the cursor/merge logic of factorize_numeric_il_du (only the algebraic form of its stores), CUDA back ends, Schwarz/Uzawa/Vanka.
"""
import os
import re

import sympy

import featlib
from featlib import Check, render, rel
import mgfacts
from mgfacts import FnView, strip, walk
import pcmodel
from pcmodel import SweepView, extract_sweep, outer_loops, NotRecognised
import pcsym
from pcsym import VecEval, NotStraight, Summaries, W, A, D, F
import norm_c08

SOLVER = "kernel/solver/"
PC_FILES = ("jacobi_precond.hpp", "sor_precond.hpp", "ssor_precond.hpp", "ilu_precond.hpp", "polynomial_precond.hpp",
            "scale_precond.hpp", "diagonal_precond.hpp", "matrix_precond.hpp")
IMPL = {   # class template -> kind
    "JacobiPrecond": "jacobi", "PolynomialPrecond": "polynomial", "ScalePrecond": "scale", "DiagonalPrecond": "diagonal",
    "MatrixPrecond": "matrix", "SORPrecondWithBackend": "sor", "SSORPrecondWithBackend": "ssor", "ILUPrecondWithBackend": "ilu",
}
WRAPPERS = {"SORPrecond": "sor", "SSORPrecond": "ssor", "ILUPrecond": "ilu"}
# member functions the rules anchor by name (as functions or as call sites): never inlined into their callers
ANCHORED = {"apply", "init_symbolic", "init_numeric", "done_symbolic", "done_numeric", "_apply_intern", "_insert", "name",
            "set_struct", "set_struct_csr", "set_struct_bcsr", "factorize_symbolic", "alloc_data", "copy_data", "copy_data_csr", "copy_data_bcsr",
            "factorize_numeric_il_du", "solve_il", "solve_du", "solve_ilt", "solve_dut", "set_omega", "set_fill_in_param", "clear"}


def tmpl(cls):
    return re.sub(r"<.*", "", cls).rsplit("::", 1)[-1]


def short(cls):
    t = tmpl(cls)
    m = re.search(r"LAFEM::(SparseMatrix\w+|DenseVector\w*)<(\w+)(?:, ([\w ]+))?(?:, (\d), (\d))?", cls)
    if not m:
        return t
    s = m.group(1)
    if m.group(4):
        s += "%sx%s" % (m.group(4), m.group(5))
    elif m.group(1) == "DenseVectorBlocked":
        mm = re.search(r"DenseVectorBlocked<\w+, [\w ]+, (\d)", cls)
        s += mm.group(1) if mm else ""
    return "%s<%s<%s>>" % (t, s, m.group(2))


def has_normal_exit(f):
    return bool(f.cfg and f.cfg.normal_exit_preds())


def stmts_of(view):
    return [e for b in view.cfg.blocks.values() for e in b["el"]]


def refs_to(node, d):
    ds = d if isinstance(d, (set, frozenset)) else {d}
    return [x for x in walk(node) if x.get("k") == "Ref" and x.get("d") in ds]


def alias_set(view, d):
    """decl ids that denote the same object as parameter d: d itself and never-reassigned locals initialised from it
    (`VectorType& out = vec_cor;`, `auto* p = q;`) — named aliases are the object they name"""
    s = {d}
    changed = True
    while changed:
        changed = False
        for ld, var in view.locals.items():
            if ld in s or var.get("init") is None or view.writes.get(ld):
                continue
            iv = strip(var["init"])
            if iv.get("k") == "Ref" and iv.get("d") in s:
                s.add(ld)
                changed = True
    return frozenset(s)


def is_emptiness_test(view, c):
    """the condition compares a size-like accessor (size, rows, columns, used_elements) with zero, or calls empty()"""
    c = view.value(c)
    if c.get("k") == "MCall" and c.get("n") == "empty":
        return True
    cc = pcmodel.norm_cmp(c)
    if cc is None or cc.get("k") != "Bin" or cc.get("op") not in ("==", "<=", "<", ">", ">=", "!="):
        return False
    for x, y, o in ((cc["lhs"], cc["rhs"], cc["op"]), (cc["rhs"], cc["lhs"], pcmodel.FLIP[cc["op"]])):
        xv, yv = view.value(x), view.value(y)
        if xv.get("k") == "MCall" and xv.get("n") in ("size", "rows", "columns", "used_elements") and yv.get("k") == "Int":
            v = int(yv["v"])
            return (o in ("==", "<=", "!=", ">") and v == 0) or (o in ("<", ">=") and v == 1)
    return False


def empty_shortcut_returns(view, operands=None):
    """statement ids of `return ...;` that are the whole then-branch of `if(<operand>.size() == 0)` / `.rows() == 0` /
    `.columns() == 0` / `.empty()` on a vector parameter or the matrix: for an empty system every vector is the result of
    every operator (and the filters have nothing to filter), so leaving early there is no path of interest"""
    out = set()
    for n in walk(view.fn.body):
        if n.get("k") != "If" or n.get("else") is not None:
            continue
        t = n.get("then") or {}
        ts = t.get("s", []) if t.get("k") == "Block" else [t]
        if len(ts) != 1 or ts[0].get("k") != "Return":
            continue
        rv = view.value(ts[0].get("e") or {})
        if featlib.is_call(rv) and not (rv.get("k") in ("Construct", "TempObj") and len(rv.get("a", [])) <= 1):
            continue
        c = view.value(n.get("c") or {})
        q = None
        cc = pcmodel.norm_cmp(c)
        if cc is not None and cc.get("k") == "Bin" and cc.get("op") in ("==", "<=", "<"):
            for x, y, o in ((cc["lhs"], cc["rhs"], cc["op"]), (cc["rhs"], cc["lhs"], pcmodel.FLIP[cc["op"]])):
                yv = view.value(y)
                if yv.get("k") == "Int" and ((o in ("==", "<=") and int(yv["v"]) == 0) or (o == "<" and int(yv["v"]) == 1)):
                    q = view.value(x)
        elif c.get("k") == "MCall" and c.get("n") == "empty":
            q = c
        if q is None or q.get("k") != "MCall" or q.get("n") not in ("size", "rows", "columns", "empty") or q.get("a"):
            continue
        o = view.value(q.get("obj") or {})
        if (o.get("k") == "Ref" and o.get("dk") == "param") or pcsym.this_field(o) == "_matrix":
            out.add(ts[0]["i"])
    return out


# -------------------------------------------------------------------------------------------------
# apply(): filter follows, output defined, input const
# -------------------------------------------------------------------------------------------------

DEFINING = {"copy": 0, "scale": 0, "component_product": None, "format": None}


def out_aliases(view, d):
    """locals initialised from out.elements() (pointer aliases of the output), and copies of such pointers"""
    ds = alias_set(view, d)
    al = set()
    for ld, var in view.locals.items():
        init = var.get("init")
        if init is not None:
            iv = view.value(init)
            if iv.get("k") == "MCall" and iv.get("n") == "elements" and view.value(iv.get("obj") or {}).get("d") in ds:
                al.add(ld)
    return al


BYDECL = {}                   # function declaration id -> Function (set by run(); callee bodies for guard equivalence)
INTERN_DEFINES = [False]     # set per class: the first sweep of _apply_intern defines the whole output (decided by check_sweeps)


def use_kind(view, ref, out_d, in_d):
    """how a reference to the output vector (or an alias pointer) is used: 'const' | 'def' | 'write' | 'filter'"""
    p = view.parent.get(ref["i"])
    hops = 0
    while p is not None and p.get("k") == "Cast" and hops < 4:
        ref, p = p, view.parent.get(p["i"])
        hops += 1
    if p is None:
        return "const"
    k = p.get("k")
    if k == "MCall" and p.get("obj") is not None and strip(p["obj"]) is strip(ref):
        nm = p.get("n")
        if p.get("cconst"):
            return "const"
        if nm in ("copy", "scale", "component_product", "component_invert", "format"):
            # defining iff no argument is the output itself
            if any(refs_to(a, out_d) for a in p.get("a", [])):
                return "write"
            return "def"
        if nm == "elements":
            return "alias"
        if nm in ("axpy",):
            return "write"
        return "unknown-mut"      # a non-const method of the vector that is not in the table
    if k in ("MCall", "Call", "Construct", "OpCall"):
        args = p.get("a", [])
        for idx, a in enumerate(args):
            if strip(a) is strip(ref) or a is ref:
                nm = p.get("n") or ""
                if nm == "filter_cor":
                    return "filter"
                if nm in ("filter_def", "filter_rhs", "filter_sol"):
                    return "write"      # a modelled filter operation, but not the correction filter
                pt = p.get("pt") or []
                ty = view.fn.type(pt[idx]) if idx < len(pt) else ""
                pn = (p.get("pn") or [None] * (idx + 1))[idx] if idx < len(p.get("pn") or []) else None
                if ty.strip().startswith("const "):
                    return "const"
                if k == "MCall" and nm == "apply" and pn == "r" and len(args) == 2:
                    return "def"
                if k == "MCall" and nm in ("solve_il",) and pn == "x":
                    return "def"
                if k == "MCall" and nm == "_apply_intern":
                    return "def" if INTERN_DEFINES[0] else "write"
                return "unknown-mut"  # passed by non-const reference to a callee that is not modelled
    if k == "Decl" or k == "Var":
        return "alias"
    return "write"


def check_apply(ck, f, inst, kind):
    view = FnView(f)
    if len(f.params) != 2:
        ck.incomplete("E7.filter-follows", "%s: apply() does not take (out, in)" % inst)
        return None
    in_d = f.params[1]["d"]
    out_d = alias_set(view, f.params[0]["d"])       # the output parameter and its named reference aliases
    aliases = out_aliases(view, f.params[0]["d"])
    filt = []
    for e in stmts_of(view):
        n = view.byid.get(e)
        if n and n.get("k") == "MCall" and n.get("n") == "filter_cor" and pcsym.this_field(view.value(n.get("obj") or {})) == "_filter" \
                and len(n.get("a", [])) == 1 and strip(n["a"][0]).get("k") == "Ref" and strip(n["a"][0])["d"] in out_d:
            filt.append(e)
    # (1) every normal exit passes the filter (the early-out for an empty system excepted)
    shortcut = empty_shortcut_returns(view)
    _, escapes = view.flow_from(None, stop=set(filt) | shortcut)
    # (2) nothing writes the output after the filter
    late = []
    for fe in filt:
        after, _ = view.flow_from(fe)
        for e in after:
            n = view.byid.get(e)
            if n is None or e in filt:
                continue
            for r in [x for x in walk(n) if x.get("k") == "Ref" and (x.get("d") in out_d or x.get("d") in aliases)]:
                if view.pos(e) is None:
                    continue
                uk = use_kind(view, r, out_d, in_d) if r.get("d") in out_d else "write"
                if uk == "unknown-mut":
                    continue      # reported as an unmodelled construct below (incomplete), not as a late write
                if uk not in ("const",):
                    # only report at the statement that directly contains the use
                    par = view.parent.get(r["i"])
                    if par is not None and par.get("i") == e or n is r:
                        late.append(n)
    # constructs that may filter / define the output without being modelled
    unmodelled = []
    for e in stmts_of(view):
        n = view.byid.get(e)
        if n is None:
            continue
        for r in [x for x in walk(n) if x.get("k") == "Ref" and x.get("d") in out_d]:
            par = view.parent.get(r["i"])
            while par is not None and par.get("k") == "Cast":
                par = view.parent.get(par["i"])
            if par is not None and par.get("i") == e and use_kind(view, r, out_d, in_d) == "unknown-mut":
                unmodelled.append("%s (line %s)" % (render(n)[:70], n.get("l")))
        if n.get("k") in ("MCall", "Call") and n.get("n") not in ("solve_il", "solve_du"):
            for a in n.get("a", []):
                if strip(a).get("k") == "Ref" and strip(a).get("d") in aliases:
                    unmodelled.append("element pointer of the output passed to %s (line %s)" % (n.get("n") or n.get("callee"), n.get("l")))
        if n.get("k") in ("MCall", "Call") and any(pcsym.this_field(view.value(a)) == "_filter" for a in n.get("a", [])):
            unmodelled.append("the filter is handed to %s (line %s)" % (n.get("n") or n.get("callee"), n.get("l")))
        if n.get("k") == "MCall" and pcsym.this_field(view.value(n.get("obj") or {})) == "_filter" and n.get("n") not in ("filter_cor", "filter_def"):
            unmodelled.append("filter method %s (line %s)" % (n.get("n"), n.get("l")))
    if any(x.get("k") == "Lambda" for x in walk(f.body)):
        unmodelled.append("lambda in apply()")
    emptiness = [render(x)[:60] for x in walk(f.body) if x.get("k") == "If" and is_emptiness_test(view, x.get("c") or {})
                 and not any(y.get("i") in shortcut for y in walk(x))]
    ok = bool(filt) and not escapes and not late
    late_unknown = False
    for fe in filt:
        after, _ = view.flow_from(fe)
        for e in after:
            n = view.byid.get(e)
            for r in [x for x in walk(n or {}) if x.get("k") == "Ref" and x.get("d") in out_d]:
                par = view.parent.get(r["i"])
                if par is not None and par.get("i") == e and use_kind(view, r, out_d, in_d) == "unknown-mut":
                    late_unknown = True
    if ok and late_unknown:
        ck.incomplete("E7.filter-follows", "%s: after the correction filter the output is handed to a callee that is not modelled" % inst)
        ok = None
    if ok is False and (unmodelled or (escapes and emptiness)) and not late:
        ck.incomplete("E7.filter-follows", "%s: the correction filter is not found on every exit, but apply() contains a construct that is not modelled: %s" % (
            inst, (unmodelled or ["early-out on an empty operand: " + emptiness[0]])[0]))
        ok = None
    detail = "every normal exit is preceded by _filter.filter_cor(%s); the output is not written afterwards" % f.params[0]["n"]
    if not filt:
        detail = "apply() never calls _filter.filter_cor(%s)" % f.params[0]["n"]
    elif escapes:
        detail = "a normal exit of apply() is reachable without passing _filter.filter_cor(%s)" % f.params[0]["n"]
    elif late:
        detail = "the output is modified after the correction filter: %s (line %s)" % (render(late[0])[:80], late[0].get("l"))
    if ok is not None:
        ck.ob("E7.filter-follows", inst, ok, detail, f.file, f.line)
    # (3) the first use of the output on every path defines it
    defs, others = [], []
    for e in stmts_of(view):
        n = view.byid.get(e)
        if n is None:
            continue
        for r in [x for x in walk(n) if x.get("k") == "Ref" and x.get("d") in out_d]:
            par = view.parent.get(r["i"])
            while par is not None and par.get("k") == "Cast":
                par = view.parent.get(par["i"])
            if par is None or par.get("i") != e:
                continue
            uk = use_kind(view, r, out_d, in_d)
            if uk == "def":
                defs.append(e)
            elif uk in ("write", "filter"):
                others.append(e)
        # pointer alias handed to a solve / sweep
        if n.get("k") == "MCall" and n.get("n") == "solve_il":
            a = n.get("a", [])
            if a and strip(a[0]).get("k") == "Ref" and strip(a[0]).get("d") in aliases and not (len(a) > 1 and strip(a[1]).get("d") in aliases):
                defs.append(e)
    before, _ = view.flow_from(None, stop=set(defs) | shortcut)
    early = [e for e in others if e in before]
    if (not defs or early) and unmodelled:
        ck.incomplete("E7.output-defined", "%s: no modelled definition of the output precedes its first use, but apply() contains a construct that may define it: %s" % (inst, unmodelled[0]))
    else:
      ck.ob("E7.output-defined", inst, bool(defs) and not early,
          "the output is defined (copy/scale/component_product/apply/solve_il from the input) before any other use on every path" if defs and not early else
          ("the output is read or updated before it is defined: %s" % render(view.byid[early[0]])[:90] if early else "no defining write of the output found"),
          f.file, f.line)
    # (4) input const
    pt = f.type(f.params[1]["t"])
    casts = [n for n in walk(f.body) if n.get("k") == "Cast" and n.get("ck") in ("const", "cstyle", "reinterpret") and refs_to(n, in_d)]
    badalias = []
    for ld, var in view.locals.items():
        init = var.get("init")
        if init is not None and refs_to(init, in_d) and strip(init).get("k") == "MCall" and strip(init).get("n") == "elements":
            if not f.type(var["t"]).strip().startswith("const "):
                badalias.append(var["n"])
    ck.ob("E7.input-const", inst, pt.strip().startswith("const ") and not casts and not badalias,
          "input is %s; no cast; element pointers to it are pointers to const" % re.sub(r"FEAT::Solver::\w+<.*>::", "", pt) if not (casts or badalias) else
          "input constness is removed (%s)" % (", ".join(badalias) or "cast"), f.file, f.line)
    return view


# -------------------------------------------------------------------------------------------------
# sweeps
# -------------------------------------------------------------------------------------------------

def expected_sweep(view, which):
    s = view.sym
    w, Dinv, b, x, S = s["w"], s["Dinv"], s["b"], s["x"], s["S"]
    if which == "sor":
        return w * Dinv * (b - S), "out[i] = omega * D_ii^-1 * (in[i] - sum_{j<i} A_ij out[j])"
    if which == "ssor-fwd":
        return Dinv * (b - w * S), "out[i] = D_ii^-1 * (in[i] - omega * sum_{j<i} A_ij out[j])"
    if which == "ssor-bwd":
        return x - w * Dinv * S, "out[i] = out[i] - omega * D_ii^-1 * sum_{j>i} A_ij out[j]"
    if which == "ilu-il":
        return b - S, "x[i] = b[i] - sum_j L_ij x[j]"
    if which == "ilu-du":
        return Dinv * (b - S), "x[i] = D_ii^-1 * (b[i] - sum_j U_ij x[j])"
    raise KeyError(which)


def check_sweeps(ck, f, inst, kind):
    """kind: 'sor' | 'ssor'"""
    blocked = "BCSR" in f.cls
    f = norm_c08.cursors_to_indices(f)      # lock-step pointer cursors are the index loop they stand for
    view = SweepView(f, f.params[1]["d"], f.params[2]["d"], blocked)
    try:
        loops = outer_loops(view)
    except NotRecognised as ex:
        ck.incomplete("E2.sweep-triangular", "%s: %s" % (inst, ex))
        return
    sweeps = []
    for lp in loops:
        try:
            sweeps.append(extract_sweep(view, lp))
        except NotRecognised as ex:
            ck.incomplete("E2.sweep-triangular", "%s: row loop at line %s not recognised: %s" % (inst, lp.get("l"), ex))
            return
    dirs = [s.dir for s in sweeps]
    want = ["asc"] if kind == "sor" else ["asc", "desc"]
    ck.ob("E6.sweep-form", "%s/sweeps" % inst, dirs == want,
          "sweeps %s; %s performs %s" % (dirs, kind.upper(), "one forward sweep" if kind == "sor" else "a forward then a backward sweep"), f.file, f.line)
    for s in sweeps:
        name = "forward" if s.dir == "asc" else "backward"
        key = "%s/%s" % (inst, name)
        inn = s.inner
        problems = []
        flat = [inn["start"][0], inn["start"][1]] + [x for g in inn["guard"] for x in (g if isinstance(g, tuple) else (g,))]
        if any(x is None for x in flat):
            ck.incomplete("E2.sweep-triangular", "%s: inner loop bounds %s / %s are not expressed through row_ptr / col_ind of the matrix" % (key, inn["start"], inn["guard"]))
            continue
        if s.dir == "asc":
            if inn["start"] != ("row_ptr", "i", 0) or inn["step"] != 1:
                problems.append("inner loop must start at row_ptr[i] and ascend (found start %s step %+d)" % (inn["start"], inn["step"]))
            if inn["guard"] != (("col_ind", "k"), "<", "i"):
                problems.append("forward sweep must stop at the first entry with col_ind[k] >= i, i.e. loop while col_ind[k] < i (found %s)" % (inn["guard"],))
        else:
            if inn["start"] != ("row_ptr", "i+1", -1) or inn["step"] != -1:
                problems.append("inner loop must start at row_ptr[i+1]-1 and descend (found start %s step %+d)" % (inn["start"], inn["step"]))
            if inn["guard"] != (("col_ind", "k"), ">", "i"):
                problems.append("backward sweep must loop while col_ind[k] > i (found %s)" % (inn["guard"],))
        if inn.get("coeff") is None:
            problems.append("accumulated term is %s, expected val[k]*out[col_ind[k]] (reads of the output at the already updated rows)" % inn.get("term"))
        elif inn.get("val") != "val" or inn.get("idx") != "col_ind":
            problems.append("accumulated product uses %s[k] and out[%s[k]]" % (inn.get("val"), inn.get("idx")))
        if s.diag is not None and s.diag != "val[k] at the stopping position":
            problems.append("the diagonal is not read from val[] at the stopping position of the inner loop")
        ck.ob("E2.sweep-triangular", key, not problems,
              "; ".join(problems) if problems else "segment %s, guard col_ind[k] %s i, product val[k]*out[col_ind[k]], diagonal at the stopping position" % (
                  "row_ptr[i].." if s.dir == "asc" else "..row_ptr[i+1]-1", "<" if s.dir == "asc" else ">"), f.file, s.line,
              sample={"dir": s.dir, "inner": {k: str(v) for k, v in inn.items() if k != "d"}})
        which = "sor" if kind == "sor" else ("ssor-fwd" if s.dir == "asc" else "ssor-bwd")
        if inn.get("coeff") is None:
            continue
        exp, text = expected_sweep(view, which)
        ok = sympy.expand(s.value - exp) == 0
        ck.ob("E6.sweep-form", key, ok, "row update %s  (S = sum of val[k]*out[col_ind[k]] over the triangle); documented: %s" % (s.value, text),
              f.file, s.line, sample={"value": str(s.value), "expected": str(sympy.expand(exp))})
    # the first sweep defines every out[i] from the input and from rows it has already written (no old content is read)
    first = sweeps[0] if sweeps else None
    return bool(first is not None and first.dir == "asc" and first.inner.get("coeff") is not None and first.inner["guard"] == (("col_ind", "k"), "<", "i")
                and not first.value.has(view.sym["x"]))


def check_ilu_solve(ck, f, inst):
    blocked = "Blocked" in f.cls
    f = norm_c08.cursors_to_indices(f)
    view = SweepView(f, f.params[0]["d"], f.params[1]["d"], blocked)
    try:
        loops = outer_loops(view)
    except NotRecognised as ex:
        ck.incomplete("E2.ilu-solve", "%s: %s" % (inst, ex))
        return
    if len(loops) != 1:
        ck.incomplete("E2.ilu-solve", "%s: %d row loops" % (inst, len(loops)))
        return
    try:
        s = extract_sweep(view, loops[0])
    except NotRecognised as ex:
        ck.incomplete("E2.ilu-solve", "%s: row loop not recognised: %s" % (inst, ex))
        return
    fam = "l" if f.name == "solve_il" else "u"
    inn = s.inner
    problems = []
    flat = [inn["start"][0], inn["start"][1]] + [x for g in inn["guard"] for x in (g if isinstance(g, tuple) else (g,))]
    if any(x is None for x in flat):
        ck.incomplete("E2.ilu-solve", "%s: inner loop bounds %s / %s are not expressed through the factor's row pointer array" % (inst, inn["start"], inn["guard"]))
        return
    want_dir = "asc" if fam == "l" else "desc"
    if s.dir != want_dir:
        problems.append("%s must run %s (rows referenced by %s are computed %s)" % (f.name, "top-down" if fam == "l" else "bottom-up", "L" if fam == "l" else "U", "before" if fam == "l" else "after"))
    rp, ci, da = "m:_row_ptr_" + fam, "m:_col_idx_" + fam, "m:_data_" + fam
    if inn["start"] != (rp, "i", 0) or inn["guard"] != ("k", "<", (rp, "i+1")) or inn["step"] != 1:
        problems.append("inner loop is not the row segment [%s[i], %s[i+1]) (found start %s, guard %s)" % (rp[2:], rp[2:], inn["start"], inn["guard"]))
    if inn.get("coeff") is None:
        problems.append("accumulated term is %s" % inn.get("term"))
    elif inn.get("val") != da or inn.get("idx") != ci:
        problems.append("accumulated product uses %s[k] * x[%s[k]], expected %s / %s" % (inn.get("val"), inn.get("idx"), da[2:], ci[2:]))
    if inn.get("coeff") is not None:
        exp, text = expected_sweep(view, "ilu-il" if fam == "l" else "ilu-du")
        if sympy.expand(s.value - exp) != 0:
            problems.append("row update %s, documented %s" % (s.value, text))
        if fam == "u" and s.diag != "_data_d[i]":
            problems.append("diagonal factor not taken from _data_d[i]")
    ck.ob("E2.ilu-solve", inst, not problems, "; ".join(problems) if problems else
          "%s: rows %s, segment of %s, product %s[k]*x[%s[k]], update %s" % (f.name, "ascending" if s.dir == "asc" else "descending", rp[2:], da[2:], ci[2:], s.value),
          f.file, s.line)


def call_sequence_rule(ck, rule, inst, f, names, what):
    """every normal path of f passes calls named names[0], names[1], ... in this order (first occurrences),
    and no path reaches a later one without the earlier one"""
    view = FnView(f)
    if BYDECL:
        # `if(p >= 1) core.factorize_symbolic(p);` where factorize_symbolic itself starts with `if(p < 1) return;`:
        # the guard repeats the callee's own early-out, skipping the call is the same as making it
        g = norm_c08.callee_guarded_ifs(view, BYDECL)
        if g:
            f = norm_c08.without_skip_edges(f, view, set(g))
            view = FnView(f)
    ids = {}
    for e in stmts_of(view):
        n = view.byid.get(e)
        if n and n.get("k") == "MCall" and n.get("n") in names:
            ids.setdefault(n["n"], []).append(e)
    missing = [n for n in names if n not in ids]
    known = set(names) | {"set_struct", "factorize_symbolic", "alloc_data", "copy_data", "factorize_numeric_il_du", "solve_il", "solve_du", "clear",
                          "get_nnze", "bytes", "elements", "size", "rows", "columns", "filter_cor", "elapsed", "add_flops", "add_time_precon", "name"}
    opaque = []
    for e in stmts_of(view):
        n = view.byid.get(e)
        if n and n.get("k") == "MCall" and n.get("n") not in known:
            o = n.get("obj")
            if o is None or strip(o).get("k") == "This" or pcsym.this_field(view.value(o)) in ("_ilu",):
                opaque.append("%s() (line %s)" % (n.get("n"), n.get("l")))
    emptiness = [render(x)[:60] for x in walk(f.body) if x.get("k") == "If" and is_emptiness_test(view, x.get("c") or {})]
    if missing:
        if opaque:
            ck.incomplete(rule, "%s: %s: no call of %s, but the function calls %s, which is not modelled" % (inst, what, ", ".join(missing), opaque[0]))
        else:
            ck.ob(rule, inst, False, "%s: call of %s missing" % (what, ", ".join(missing)), f.file, f.line)
        return
    problems = []
    shortcut = empty_shortcut_returns(view)
    _, esc = view.flow_from(None, stop=set(ids[names[0]]) | shortcut)
    if esc:
        problems.append("a normal exit is reachable without %s" % names[0])
    for a, b in zip(names, names[1:]):
        reach, _ = view.flow_from(None, stop=set(ids[a]))
        if any(e in reach for e in ids[b]):
            problems.append("%s can run before %s" % (b, a))
        for e in ids[a]:
            _, esc = view.flow_from(e, stop=set(ids[b]) | shortcut)
            if esc:
                problems.append("a normal exit is reachable after %s without %s" % (a, b))
        for e in ids[b]:
            after, _ = view.flow_from(e)
            if any(x in after for x in ids[a]):
                problems.append("%s runs again after %s" % (a, b))
    if problems and all("normal exit" in p for p in problems) and emptiness:
        ck.incomplete(rule, "%s: %s; the function has an early-out on an empty operand (%s) whose harmlessness is not decided" % (inst, "; ".join(sorted(set(problems))), emptiness[0]))
        return
    ck.ob(rule, inst, not problems, "; ".join(sorted(set(problems))) if problems else "%s: %s on every path" % (what, " -> ".join(names)), f.file, f.line)


# -------------------------------------------------------------------------------------------------
# omega scaling of the sweep result
# -------------------------------------------------------------------------------------------------

def check_omega_scale(ck, f, inst, kind):
    view = FnView(f)
    out_d = alias_set(view, f.params[0]["d"])
    sweep = [e for e in stmts_of(view) if (view.byid.get(e) or {}).get("n") == "_apply_intern"]
    if not sweep:
        ck.incomplete("E6.omega-scale", "%s: no call of _apply_intern" % inst)
        return
    factor = sympy.Integer(1)
    where = []
    bad = None
    for e in stmts_of(view):
        n = view.byid.get(e)
        if n and n.get("k") == "MCall" and n.get("n") == "scale" and strip(n.get("obj") or {}).get("d") in out_d:
            a = n.get("a", [])
            if len(a) != 2 or strip(a[0]).get("d") not in out_d:
                bad = "scale() of the output does not scale the output itself: %s" % render(n)
                continue
            try:
                ve = VecEval(view, {})
                factor = factor * ve.scalar(a[1])
            except NotStraight as ex:
                ck.incomplete("E6.omega-scale", "%s: scaling factor %s not understood (%s)" % (inst, render(a[1]), ex))
                return
            where.append(e)
            reach, _ = view.flow_from(None, stop=set(sweep))
            if e in reach:
                bad = "the output is scaled before the sweeps"
            _, esc = view.flow_from(sweep[0], stop={e})
            if esc:
                bad = "a normal exit is reachable that skips the scaling"
    want = W * (2 - W) if kind == "ssor" else sympy.Integer(1)
    # any other modification of the output after the sweeps (axpy, component_product, unmodelled callee) may carry the factor
    after, _ = view.flow_from(sweep[0])
    for e in after:
        n = view.byid.get(e)
        if n is None or e in where or n.get("n") in ("filter_cor", "size", "template size"):
            continue
        for r in [x for x in walk(n) if x.get("k") == "Ref" and x.get("d") in out_d]:
            par = view.parent.get(r["i"])
            if par is not None and par.get("i") == e and use_kind(view, r, out_d, f.params[1]["d"]) not in ("const", "filter"):
                ck.incomplete("E6.omega-scale", "%s: the output is modified after the sweeps by %s, which is not a scale() of the output" % (inst, render(n)[:70]))
                return
    if bad is not None and "does not scale the output itself" in bad:
        ck.incomplete("E6.omega-scale", "%s: %s" % (inst, bad))
        return
    ok = bad is None and sympy.expand(factor - want) == 0
    ck.ob("E6.omega-scale", inst, ok,
          bad or "result of the sweeps is scaled by %s; %s requires %s" % (sympy.factor(factor), kind.upper(), "omega*(2-omega)" if kind == "ssor" else "no further scaling (omega is inside the sweep)"),
          f.file, f.line, sample={"factor": str(factor), "expected": str(want)})


# -------------------------------------------------------------------------------------------------
# operator forms
# -------------------------------------------------------------------------------------------------

def shortcut_ifs(view):
    """ids of the if-statements that are an early-out for an empty system (see empty_shortcut_returns)"""
    rets = empty_shortcut_returns(view)
    return {n["i"] for n in walk(view.fn.body) if n.get("k") == "If" and any(x.get("i") in rets for x in walk(n.get("then") or {}))}


def check_operator_form(ck, fns, inst, kind):
    rule = "E5.operator-form"
    ap = fns["apply"]
    view = FnView(ap)
    outp, inp = ap.params[0]["n"], ap.params[1]["n"]
    env = {("p", inp): F}
    diag_fields = set()
    Dg = pcsym.nc("Dg")
    if kind == "diagonal":
        env[("m", "_diag")] = Dg
        diag_fields.add("_diag")
    try:
        if kind in ("jacobi", "polynomial"):
            if "init_numeric" in fns:
                ini = fns["init_numeric"]
                iview = FnView(ini)
                iv = VecEval(iview, {}, diag_fields=diag_fields, methods=fns)
                iv.skip_if = shortcut_ifs(iview)
                iv.run(ini.body.get("s", []))
                for k, val in iv.env.items():
                    env[k] = val
                diag_fields |= iv.diag_fields
        ev = VecEval(view, env, diag_fields=diag_fields, methods=fns)
        ev.skip_if = shortcut_ifs(view)
        loopinfo = {}

        def loop_hook(ve, loop):
            if kind != "polynomial" or loopinfo:
                raise NotStraight("unexpected loop")
            c = pcmodel.counting_loop(view, loop)
            l, op, r = pcmodel.cond_on(view, c["cond"], c["d"])
            if strip(l).get("k") != "Ref":
                raise NotStraight("loop condition %s" % render(c["cond"]))

            def lin_m(n):
                """(coefficient of _m, constant) of a loop bound"""
                n = view.value(n)
                if n.get("k") == "Int":
                    return (0, int(n["v"]))
                if pcsym.this_field(n) == "_m":
                    return (1, 0)
                if n.get("k") == "Bin" and n.get("op") in ("+", "-"):
                    a, b = lin_m(n["lhs"]), lin_m(n["rhs"])
                    sg = 1 if n["op"] == "+" else -1
                    return (a[0] + sg * b[0], a[1] + sg * b[1])
                raise NotStraight("loop bound %s is not _m plus a constant" % render(n))
            a, b = lin_m(c["init"]), lin_m(r)
            # number of iterations: ascending from a while < / <= b, descending from a while > / >= b
            if c["step"] == 1 and op in ("<", "<=", "!="):
                cnt = (b[0] - a[0], b[1] - a[1] + (1 if op == "<=" else 0))
            elif c["step"] == -1 and op in (">", ">=", "!="):
                cnt = (a[0] - b[0], a[1] - b[1] + (1 if op == ">=" else 0))
            else:
                raise NotStraight("loop %s is not a count over _m" % render(loop))
            if cnt[0] != 1:
                raise NotStraight("loop %s is not a count over _m" % render(loop))
            if any(x.get("k") == "Ref" and x.get("d") == c["d"] for st in c["stmts"] for x in walk(st)):
                raise NotStraight("the loop counter is used inside the iteration")
            count = cnt[1]
            loopinfo["count"] = count      # iterations = _m + count
            pre = dict(ve.env)
            X = pcsym.nc("X")
            ve.env[("p", outp)] = X
            # members written inside the loop are unknown at its head
            body_stmts = c["stmts"]
            ve.run(body_stmts)
            loopinfo["pre"] = pre
            loopinfo["next"] = ve.env[("p", outp)]
            loopinfo["X"] = X
            loopinfo["inv"] = {k: v for k, v in pre.items()}
            # after the loop the value is symbolic: keep X' (checked through the recurrence)
        ev.run(ap.body.get("s", []), loop_hook)
        got = sympy.expand(ev.env.get(("p", outp), sympy.Symbol("undefined")))
    except (NotStraight, NotRecognised) as ex:
        ck.incomplete(rule, "%s: %s" % (inst, ex))
        return
    Dinv = D ** -1
    if kind == "jacobi":
        want, text = W * Dinv * F, "omega * D^-1 * def (omega exactly once)"
    elif kind == "scale":
        want, text = W * F, "omega * def"
    elif kind == "diagonal":
        want, text = Dg * F, "diag * def (component-wise product with the given vector)"
    elif kind == "matrix":
        want, text = A * F, "M * def"
    elif kind == "polynomial":
        Minv = W * Dinv
        pre = loopinfo.get("pre")
        if not pre:
            ck.incomplete(rule, "%s: no iteration loop over _m found in apply() (unrolled / recursive forms are not modelled)" % inst)
            return
        X = loopinfo["X"]
        x0 = sympy.expand(pre.get(("p", outp), 0))
        # the loop-invariant summand
        nxt = sympy.expand(loopinfo["next"])
        want_next = sympy.expand(X - Minv * A * X + Minv * F)
        problems = []
        if sympy.expand(x0 - Minv * F) != 0:
            problems.append("start value %s, documented M~^-1 def = %s" % (x0, sympy.expand(Minv * F)))
        if sympy.expand(nxt - want_next) != 0:
            problems.append("iteration x <- %s, documented x <- (I - M~^-1 A) x + M~^-1 def = %s" % (nxt, want_next))
        if loopinfo["count"] != 0:
            problems.append("loop performs _m%+d iterations, documented sum has k = 0.._m (m iterations after the start value)" % loopinfo["count"])
        ck.ob(rule, inst, not problems, "; ".join(problems) if problems else
              "x0 = w D^-1 def; m times x <- x + x0 - w D^-1 A x  ==  sum_{k=0}^{m} (I - M~^-1 A)^k M~^-1 def with M~^-1 = omega D^-1",
              ap.file, ap.line, sample={"x0": str(x0), "next": str(nxt)})
        return
    else:
        return
    ok = sympy.expand(got - want) == 0
    ck.ob(rule, inst, ok, "apply(): out = %s; documented: %s" % (got, text), ap.file, ap.line, sample={"operator": str(got), "expected": str(sympy.expand(want))})


# -------------------------------------------------------------------------------------------------
# numeric refresh
# -------------------------------------------------------------------------------------------------

def check_numeric(ck, S, fns, inst, kind):
    sh = lambda q: q.rsplit("::", 1)[-1]
    ap = S.analyse(fns["apply"])
    sym = S.analyse(fns["init_symbolic"]) if "init_symbolic" in fns else None
    num = S.analyse(fns["init_numeric"]) if "init_numeric" in fns else None
    numeric = set()
    for r in (sym, num):
        if r:
            numeric |= r["fresh"]
    if sym is not None:
        va = sym["value_access"]
        # harmless if everything init_symbolic computes from values is freshly recomputed on every path of init_numeric
        redundant = False
        if va and num is not None and sym["fresh"]:
            vn = S.view(fns["init_numeric"])
            redundant = True
            for m in sym["fresh"]:
                stop = {e for e in stmts_of(vn) if e in set(num["stmts"].get(m, []))}
                if not stop or vn.flow_from(None, stop=stop)[1]:
                    redundant = False
        ck.ob("E8.symbolic-structure-only", inst, not va or redundant,
              "init_symbolic() reads the matrix structure only" if not va else
              ("init_symbolic() also reads matrix values (%s), but init_numeric() recomputes all of it" if redundant else "init_symbolic() reads matrix values that init_numeric() does not recompute: %s") %
              ", ".join("%s (line %s)" % (t, l) for l, t in va[:3]),
              fns["init_symbolic"].file, fns["init_symbolic"].line)
    used = sorted(m for m in numeric if m in ap["reads"])
    if not used:
        direct = [t for l, t in ap["value_access"]]
        ck.ob("E8.numeric-refresh", "%s/-" % inst, True,
              "apply() uses no member computed from matrix values%s" % (" (reads the matrix itself: %s)" % ", ".join(sorted(set(direct))) if direct else ""),
              fns["apply"].file, fns["apply"].line, trivial=True)
        return
    for m in used:
        key = "%s/%s" % (inst, sh(m))
        if num is None:
            ck.ob("E8.numeric-refresh", key, False, "%s is computed from matrix values and read by apply(), but the class has no init_numeric()" % sh(m),
                  fns["apply"].file, fns["apply"].line)
            continue
        f = fns["init_numeric"]
        view = S.view(f)
        stm = set(num["stmts"].get(m, []))
        # statement ids may be nested call nodes: lift to CFG elements
        stop = {e for e in stmts_of(view) if e in stm}
        _, esc = view.flow_from(None, stop=stop | empty_shortcut_returns(view))
        ok = bool(stop) and not esc
        if not ok and m in num.get("opaque", set()):
            ck.incomplete("E8.numeric-refresh", "%s: %s is handed to a callee whose body is not available in init_numeric(); whether it is recomputed there is not decided" % (key, sh(m)))
            continue
        ck.ob("E8.numeric-refresh", key, ok,
              "%s (read by apply()) is rewritten from the current matrix values on every path through init_numeric()" % sh(m) if ok else
              "%s is read by apply() and computed from matrix values%s, but init_numeric() %s" % (
                  sh(m), " in init_symbolic()" if sym and m in sym["fresh"] else "", "does not rewrite it from the matrix on every path" if stop else "never rewrites it from the matrix"),
              f.file, f.line, sample={"member": sh(m), "fresh_writes_in_init_numeric": len(stop)})


# -------------------------------------------------------------------------------------------------
# ILU core: copy_data covers the whole factor pattern; operand order of the numeric factorisation
# -------------------------------------------------------------------------------------------------

def member_array(view, n, depth=0):
    """field name if n denotes (a pointer to) the storage of a std::vector member: _data_l, this->_data_l.data(), alias locals"""
    n = strip(n)
    if depth > 8:
        return None
    k = n.get("k")
    f = pcsym.this_field(n)
    if f is not None:
        return f
    if k == "MCall" and n.get("n") == "data":
        return member_array(view, n.get("obj"), depth + 1)
    if k == "Cond":
        a, b = strip(n["then"]), strip(n["else"])
        return member_array(view, b if a.get("k") == "Null" else a, depth + 1)
    if k == "Ref" and n.get("dk") == "local":
        var = view.locals.get(n["d"])
        if var is not None and not view.writes.get(n["d"]) and var.get("init") is not None:
            return member_array(view, var["init"], depth + 1)
    return None


def element(view, n):
    """(field, index node) if n is array[idx] / vector[idx] of a member array"""
    n = strip(n)
    if n.get("k") == "Index":
        f = member_array(view, n["b"])
        return (f, n["idx"]) if f else None
    if n.get("k") == "OpCall" and n.get("op") == "[]" and len(n.get("a", [])) == 2:
        f = member_array(view, n["a"][0])
        return (f, n["a"][1]) if f else None
    return None


def store_of(view, st):
    """(field, index node) if statement st stores to one element of a member array (=, class operator=)"""
    st = strip(st)
    if st.get("k") == "Assign" and st.get("op") == "=":
        return element(view, st["lhs"])
    if st.get("k") == "OpCall" and st.get("op") == "=" and len(st.get("a", [])) == 2:
        return element(view, st["a"][0])
    return None


def covers(view, st, field, d, off=0):
    """every path through statement st stores field[<var d> + off]; raises NotRecognised on jumps"""
    if st is None:
        return False
    k = st.get("k")
    if k in ("Break", "Continue", "Return"):
        raise NotRecognised("%s inside a copy loop" % k.lower())
    if k == "Block":
        return any(covers(view, x, field, d, off) for x in st.get("s", []))
    if k == "If":
        return covers(view, st.get("then"), field, d, off) and covers(view, st.get("else"), field, d, off)
    so = store_of(view, st)
    if so is not None and so[0] == field:
        return is_idx(view, so[1], d, off)
    return False


def covers_row(view, st, field, d, off):
    return covers(view, st, field, d, off)


def is_idx(view, n, d, off=0):
    """n == <variable d> + off, through never-written locals and casts"""
    af = norm_c08.affine(view, n)
    return af is not None and af[0] == d and af[1] == off


def full_row_loop(view, o, is_n=None):
    """offset r such that (loop variable + r) runs over every row 0 .. _n-1 exactly once, or None:
    for(i = 0; i < _n; ++i), for(i = _n; i > 0;) { --i; ..., for(ii = _n; ii > 0; --ii) [row ii-1], for(ii = 1; ii <= _n; ++ii)"""
    l, op, r = pcmodel.cond_on(view, o["cond"], o["d"])
    if strip(l).get("k") != "Ref":
        return None
    init, bound = view.value(o["init"]), view.value(r)
    is_n = is_n or (lambda x: pcsym.this_field(x) == "_n")
    is_int = lambda x, v: x.get("k") == "Int" and int(x["v"]) == v
    if o["step"] == 1 and o["where"] == "inc" and is_n(bound):
        if is_int(init, 0) and op in ("<", "!="):
            return 0
        if is_int(init, 1) and op == "<=":
            return -1
    if o["step"] == -1 and is_n(init) and ((op in (">", "!=") and is_int(bound, 0)) or (op == ">=" and is_int(bound, 1))):
        return 0 if o["where"] == "body-first" else -1
    return None


def check_copy_covers(ck, f, inst):
    """copy_data_csr / copy_data_bcsr: every slot of _data_l, _data_u (whole row segments of the factor pattern, including
    fill-in positions that are not in A) and _data_d is assigned on every path of the row loop"""
    rule = "E8.refresh-covers"
    view = FnView(f)
    rows = [s_ for s_ in pcmodel.flat(f.body.get("s", [])) if s_.get("k") in ("For", "While")]
    try:
        found = {}
        partial = {}
        for rl in rows:
            o = pcmodel.counting_loop(view, rl)
            roff = full_row_loop(view, o)
            full_rows = roff is not None
            roff = roff or 0
            i_d = o["d"]
            for st in pcmodel.flat(o["stmts"]):
                if st.get("k") in ("For", "While"):
                    c = pcmodel.counting_loop(view, st)
                    el0 = element(view, view.value(c["init"])) if c["init"] is not None else None
                    l2, op2, r2 = pcmodel.cond_on(view, c["cond"], c["d"])
                    el1 = element(view, view.value(r2))
                    seg = None
                    if el0 and el1 and el0[0] == el1[0] and el0[0].startswith("_row_ptr_") and is_idx(view, el0[1], i_d, roff) and is_idx(view, el1[1], i_d, roff + 1) \
                            and op2 in ("<", "!=") and c["step"] == 1 and c["where"] == "inc" and strip(l2).get("k") == "Ref":
                        seg = el0[0][len("_row_ptr_"):]
                    body = {"k": "Block", "s": c["stmts"]}
                    for fam in ("l", "u"):
                        fld = "_data_" + fam
                        stores = [x for x in walk(st) if store_of(view, x) and store_of(view, x)[0] == fld]
                        if not stores:
                            continue
                        if seg == fam and full_rows and covers(view, body, fld, c["d"]):
                            found.setdefault(fld, st.get("l"))
                        elif fld not in found:
                            why = "the enclosing row loop `%s` does not visit every row 0 .. _n-1" % render(rl) if (seg == fam and not full_rows) else \
                                "stored only on some paths of the loop over %s" % ("row segment of " + seg.upper() if seg else render(st))
                            partial.setdefault(fld, (st.get("l"), why))
                else:
                    if full_rows and covers_row(view, st, "_data_d", i_d, roff):
                        found.setdefault("_data_d", st.get("l"))
                    so = [x for x in walk(st) if store_of(view, x) and store_of(view, x)[0] in ("_data_l", "_data_u")]
                    if so:
                        raise NotRecognised("store to %s outside a row-segment loop" % store_of(view, so[0])[0])
    except NotRecognised as ex:
        ck.incomplete(rule, "%s: %s" % (inst, ex))
        return
    # fill / assign / memset idioms, or the array handed to another function, are not modelled
    opaque = {}
    for n in walk(f.body):
        if n.get("k") == "MCall" and (n.get("obj") is None or strip(n["obj"]).get("k") == "This") and not n.get("cconst"):
            for fa in ("_data_l", "_data_u", "_data_d"):
                opaque.setdefault(fa, "the member function %s() (line %s)" % (n.get("n"), n.get("l")))
        if n.get("k") in ("MCall", "Call"):
            nm = n.get("n") or (n.get("callee") or "").rsplit("::", 1)[-1]
            operands = ([n.get("obj")] if n.get("obj") is not None else []) + list(n.get("a", []))
            for a in operands:
                fa = None
                for x in walk(a):
                    fa = fa or (member_array(view, x) if x.get("k") in ("Member", "Ref") else None)
                if fa in ("_data_l", "_data_u", "_data_d") and nm not in ("data", "operator[]", "size", "empty") and not (n.get("k") == "MCall" and n.get("cconst") and n.get("obj") is a):
                    opaque.setdefault(fa, "%s (line %s)" % (nm, n.get("l")))
    for fld, what in (("_data_l", "every position of row i of L"), ("_data_d", "the diagonal of every row"), ("_data_u", "every position of row i of U")):
        if fld not in found and fld in opaque:
            ck.incomplete(rule, "%s/%s: no covering element-wise store found, but the array is used by %s, which is not modelled" % (inst, fld, opaque[fld]))
            continue
        ok = fld in found and fld not in partial
        if ok:
            detail = "%s is assigned on every path (pattern positions absent from A are zeroed, not kept)" % what
        elif fld in found:
            detail = "%s: the loop that assigns every position (line %s) runs after the conditional copy from A (line %s) and overwrites it" % (fld, found[fld], partial[fld][0])
        elif fld in partial:
            detail = "%s: %s (line %s): positions of the ILU(p) pattern that are not in A keep the values of the previous factorisation on a re-init" % (fld, partial[fld][1], partial[fld][0])
        else:
            detail = "%s is never assigned over its whole extent" % fld
        ck.ob(rule, "%s/%s" % (inst, fld), ok, detail, f.file, found.get(fld) or (partial.get(fld) or (f.line,))[0])


def check_factor_form(ck, f, inst, blocked):
    """operand order of the in-place (I+L)(D+U) factorisation: L_ij <- L_ij D_jj^-1 (D stored inverted),
    X <- X - L_ij U_jk for X in L, D, U, D_ii <- D_ii^-1; non-commutative normal forms for blocks"""
    rule = "E6.ilu-factor-form"
    view = FnView(f)
    comm = not blocked
    syms = {}

    def sym_of(fld, idx):
        key = "%s[%s]" % (fld[len("_data_"):], re.sub(r"\s", "", render(view.value(idx) if strip(idx).get("k") == "Ref" and False else idx)))
        if key not in syms:
            syms[key] = sympy.Symbol(key, commutative=comm)
        return syms[key]

    def conv(n):
        n = view.value(n)
        k = n.get("k")
        if k in ("Int", "Float"):
            return sympy.nsimplify(n.get("text") or n["v"], rational=True)
        el = element(view, n)
        if el is not None and el[0].startswith("_data_"):
            return sym_of(*el)
        if k == "Un" and n.get("op") == "-":
            return -conv(n["e"])
        if k == "Bin" and n.get("op") in "+-*/":
            a, b = conv(n["lhs"]), conv(n["rhs"])
            if n["op"] == "/":
                return a * b ** -1
            return {"+": a + b, "-": a - b, "*": a * b}[n["op"]]
        if k in ("Construct", "TempObj") and len(n.get("a", [])) == 1:
            return conv(n["a"][0])
        raise NotRecognised("expression %s" % render(n))
    updates = []
    try:
        for n in walk(f.body):
            k = n.get("k")
            tgt = val = None
            if k == "Assign" and element(view, n["lhs"]) and element(view, n["lhs"])[0].startswith("_data_"):
                tgt = element(view, n["lhs"])
                T = sym_of(*tgt)
                r = conv(n["rhs"])
                val = {"=": r, "+=": T + r, "-=": T - r, "*=": T * r}.get(n.get("op"))
                if val is None:
                    raise NotRecognised("assignment %s" % render(n))
            elif k == "MCall" and n.get("obj") is not None and element(view, n["obj"]) and element(view, n["obj"])[0].startswith("_data_"):
                tgt = element(view, n["obj"])
                T = sym_of(*tgt)
                a = n.get("a", [])
                nm = n.get("n")
                if nm == "set_mat_mat_mult" and len(a) == 2:
                    val = conv(a[0]) * conv(a[1])
                elif nm == "add_mat_mat_mult" and len(a) == 3:
                    val = T + conv(a[2]) * conv(a[0]) * conv(a[1])
                elif nm == "set_inverse" and len(a) == 1:
                    val = conv(a[0]) ** -1
                elif n.get("cconst"):
                    continue
                else:
                    raise NotRecognised("block operation %s" % nm)
            if tgt is not None:
                updates.append((n, tgt, T, sympy.expand(val)))
    except NotRecognised as ex:
        ck.incomplete(rule, "%s: %s" % (inst, ex))
        return
    fam = lambda sy: str(sy)[0]
    seen = {}
    for n, tgt, T, val in updates:
        tf = tgt[0][len("_data_"):]
        problems = []
        kind = None
        if sympy.expand(val - T ** -1) == 0:
            kind = "invert-%s" % tf
            if tf != "d":
                problems.append("only the diagonal is inverted")
            exp = T ** -1
        else:
            delta = sympy.expand(val - T)
            # delta == -X*Y with two array elements X, Y (neither the target)?
            elems = None
            if delta != 0 and not delta.is_Add and not delta.has(T):
                if comm:
                    co, rest = delta.as_coeff_Mul()
                    fac = list(rest.args) if rest.is_Mul else [rest]
                    if co == -1 and len(fac) == 2 and all(x.is_Symbol for x in fac):
                        elems = sorted(fac, key=str)
                else:
                    cc, ncp = delta.args_cnc()
                    if sympy.Mul(*cc) == -1 and len(ncp) == 2 and all(x.is_Symbol for x in ncp):
                        elems = ncp
            if elems is not None:
                kind = "update-%s" % tf
                X, Y = elems
                if comm:
                    if sorted((fam(X), fam(Y))) != ["l", "u"]:
                        problems.append("Schur update subtracts %s, expected L_ij*U_jk" % (X * Y))
                elif (fam(X), fam(Y)) != ("l", "u"):
                    problems.append("Schur update subtracts %s*%s; (I+L)(D+U) = A requires L_ij * U_jk in this order" % (X, Y))
                exp = T - X * Y
            else:
                ds = [x for x in val.free_symbols if fam(x) == "d" and x != T]
                kind = "scale-%s" % tf
                if tf != "l" or len(ds) != 1:
                    ck.incomplete(rule, "%s: update %s <- %s (line %s) is not one of the modelled forms L_ij <- L_ij D_jj^-1, X <- X - L_ij U_jk, D_ii <- D_ii^-1" % (inst, T, val, n.get("l")))
                    continue
                else:
                    exp = sympy.expand(T * ds[0])
                    if sympy.expand(val - exp) != 0:
                        problems.append("L_ij <- %s; A_ij = sum_{k<j} L_ik U_kj + L_ij D_jj gives L_ij <- L_ij * D_jj^-1 (right multiplication; %s holds D_jj^-1)" % (val, ds[0]))
        key = "%s/%s" % (inst, kind)
        seen[key] = seen.get(key, 0) + 1
        if seen[key] > 1:
            key += "#%d" % seen[key]
        ck.ob(rule, key, not problems, "; ".join(problems) if problems else "%s <- %s" % (T, val), f.file, n.get("l"), sample={"target": str(T), "value": str(val)})


# -------------------------------------------------------------------------------------------------
# ILU(p) symbolic factorisation: level-of-fill recurrence  lev(i,k) = min over j of lev(i,j) + lev(j,k) + 1
# -------------------------------------------------------------------------------------------------

def check_level_fold(ck, fns, inst):
    """_insert(): an entry that already exists keeps min(stored level, new level) on every path (duplicate insertion
    folds with MIN; 'keep first' and 'overwrite' are both wrong), a new entry gets the new level;
    factorize_symbolic(): the level handed to _insert is lev(L_ij) + lev(U_jk) + 1 of the two entries being merged,
    entries with level <= p are inserted, pattern entries of A start with level 0"""
    rule = "E4.ilu-level-fold"
    ins = fns.get("_insert")
    fs = fns.get("factorize_symbolic")
    if ins is None or fs is None:
        ck.incomplete(rule, "%s: _insert / factorize_symbolic vanished" % inst)
        return
    # ---------------- _insert ----------------
    view = FnView(ins)
    ps = ins.params
    vec_params = [p for p in ps if "std::vector" in ins.type(p["t"])]
    int_params = [p for p in ps if p not in vec_params]
    if len(vec_params) != 2 or len(int_params) != 3:
        ck.incomplete(rule, "%s::_insert: signature (idx, lvl, pos, col, level) not recognised" % inst)
        return
    idx_d, lvl_d = vec_params[0]["d"], vec_params[1]["d"]
    pos_d, col_d, lev_d = [p["d"] for p in int_params]

    def elem(n):
        """('idx'|'lvl', index node) for vec[pos]"""
        n = view.value(n)
        if n.get("k") == "OpCall" and n.get("op") == "[]" and len(n.get("a", [])) == 2:
            b = view.value(n["a"][0])
            if b.get("k") == "Ref" and b.get("d") in (idx_d, lvl_d):
                return ("idx" if b["d"] == idx_d else "lvl"), n["a"][1]
        if n.get("k") == "MCall" and n.get("n") == "at" and len(n.get("a", [])) == 1:
            b = view.value(n.get("obj") or {})
            if b.get("k") == "Ref" and b.get("d") in (idx_d, lvl_d):
                return ("idx" if b["d"] == idx_d else "lvl"), n["a"][0]
        return None

    def is_pos(n):
        n = view.value(n)
        return n.get("k") == "Ref" and n.get("d") == pos_d

    def atom_lvl(n):
        """'l' | 'old' | None for an operand of the level comparison"""
        v = view.value(n)
        if v.get("k") == "Ref" and v.get("d") == lev_d:
            return "l"
        e = elem(n)
        if e and e[0] == "lvl" and is_pos(e[1]):
            return "old"
        return None

    class Unknown(Exception):
        pass

    def value_forms(n):
        """list of (constraints, 'l'|'old') the expression can evaluate to; min/max/?: are split into cases"""
        v = view.value(n)
        a = atom_lvl(n)
        if a:
            return [([], a)]
        if v.get("k") == "Call" and v.get("callee", "").rsplit("::", 1)[-1] in ("min", "max") and len(v.get("a", [])) == 2:
            x, y = atom_lvl(v["a"][0]), atom_lvl(v["a"][1])
            if {x, y} == {"l", "old"}:
                mn = v["callee"].endswith("min")
                # min: l if l < old else old (ties irrelevant)
                return [([("<", True)], "l" if mn else "old"), ([("<", False)], "old" if mn else "l")]
        if v.get("k") == "Cond":
            c = cmp_atom(v["c"])
            out = []
            for truth, br in ((True, v["then"]), (False, v["else"])):
                for cs, val in value_forms(br):
                    out.append(([(c[0], c[1] == truth)] + cs, val))
            return out
        raise Unknown("level value %s" % render(n))

    def cmp_atom(n):
        """(op, polarity) with op normalised to `l op old`; polarity True = as written"""
        c = strip(n)
        neg = False
        while c.get("k") == "Un" and c.get("op") == "!":
            neg = not neg
            c = strip(c["e"])
        if c.get("k") == "Bin" and c.get("op") in ("<", "<=", ">", ">="):
            x, y = atom_lvl(c["lhs"]), atom_lvl(c["rhs"])
            op = c["op"]
            if (x, y) == ("old", "l"):
                op = {"<": ">", ">": "<", "<=": ">=", ">=": "<="}[op]
            elif (x, y) != ("l", "old"):
                raise Unknown("condition %s" % render(n))
            return (op, not neg)
        raise Unknown("condition %s" % render(n))

    def holds(op, order):
        # order: -1 (l < old), 0 (l == old), +1 (l > old)
        return {"<": order < 0, "<=": order <= 0, ">": order > 0, ">=": order >= 0}[op]

    results = []     # (constraints [(op, truth)], final value 'l'|'old')

    def run(stmts, cons, cur):
        """returns list of (cons, cur) continuing after the statement list; emits at Return"""
        states = [(cons, cur)]
        for st in stmts:
            nxt = []
            for cs, cv in states:
                k = st.get("k")
                if k == "Block":
                    nxt += run(st.get("s", []), cs, cv)
                elif k == "Return":
                    results.append((cs, cv))
                elif k == "If":
                    c = cmp_atom(st["c"])
                    for truth, br in ((True, st.get("then")), (False, st.get("else"))):
                        cs2 = cs + [(c[0], c[1] == truth)]
                        if br is None:
                            nxt.append((cs2, cv))
                        else:
                            nxt += run([br], cs2, cv)
                elif k == "Assign" and elem(st["lhs"]) and elem(st["lhs"])[0] == "lvl":
                    if not is_pos(elem(st["lhs"])[1]) or st.get("op") != "=":
                        raise Unknown("store %s" % render(st))
                    for cs3, val in value_forms(st["rhs"]):
                        nxt.append((cs + cs3, val if val != "old" else cv))
                elif k in ("Decl",):
                    nxt.append((cs, cv))
                else:
                    for x in walk(st):
                        if x.get("k") == "Ref" and x.get("d") == lvl_d:
                            raise Unknown("statement %s touches the level array" % render(st))
                    nxt.append((cs, cv))
            states = nxt
        return states
    found = None
    for n in walk(ins.body):
        if n.get("k") == "If":
            c = pcmodel.norm_cmp(view.value(n.get("c") or {})) or {}
            if c.get("k") == "Bin" and c.get("op") == "==":
                for x, y in ((c["lhs"], c["rhs"]), (c["rhs"], c["lhs"])):
                    e = elem(x)
                    yv = view.value(y)
                    if e and e[0] == "idx" and is_pos(e[1]) and yv.get("k") == "Ref" and yv.get("d") == col_d:
                        found = n
    if found is None:
        ck.incomplete(rule, "%s::_insert: the test `idx[pos] == col` for an existing entry was not found" % inst)
    else:
        try:
            rest = run([found["then"]], [], "old")
            if rest:
                raise Unknown("the existing-entry branch does not end in a return")
            problems = []
            for cs, val in results:
                for order, txt in ((-1, "new level < stored level"), (1, "new level > stored level")):
                    if all(holds(op, order) == truth for op, truth in cs):
                        want = "l" if order < 0 else "old"
                        if val != want:
                            problems.append("for %s the entry ends up with the %s level (%s)" % (txt, "new" if val == "l" else "stored",
                                            "'keep first': a lower level found later is lost, the ILU(p) pattern gets too small for p >= 2" if order < 0 else "'overwrite': a higher level replaces a lower one"))
            ck.ob(rule, "%s::_insert/existing entry" % inst, not problems and bool(results),
                  "; ".join(sorted(set(problems))) if problems else "an entry found again keeps min(stored level, new level) on all %d paths" % len(results),
                  ins.file, found.get("l"))
        except Unknown as ex:
            ck.incomplete(rule, "%s::_insert: existing-entry branch: %s" % (inst, ex))
    # new entry: idx[pos] = col and lvl[pos] = level after the insertion
    pushes = [e for e in stmts_of(view) if (view.byid.get(e) or {}).get("n") in ("push_back", "emplace_back", "insert", "resize")]
    sets = {"idx": [], "lvl": []}
    for e in stmts_of(view):
        n = view.byid.get(e)
        if n and n.get("k") == "Assign" and n.get("op") == "=" and elem(n["lhs"]) and is_pos(elem(n["lhs"])[1]):
            which = elem(n["lhs"])[0]
            rv = view.value(n["rhs"])
            if rv.get("k") == "Ref" and rv.get("d") == (col_d if which == "idx" else lev_d):
                sets[which].append(e)
    # vec.insert(vec.begin() + pos, value): creates the entry and stores the value at the insertion position in one step
    wrong_insert = []
    for e in stmts_of(view):
        n = view.byid.get(e)
        if n and n.get("k") == "MCall" and n.get("n") in ("insert", "emplace") and len(n.get("a", [])) == 2:
            b = view.value(n.get("obj") or {})
            if b.get("k") == "Ref" and b.get("d") in (idx_d, lvl_d):
                which = "idx" if b["d"] == idx_d else "lvl"
                it = view.value(n["a"][0])
                while it.get("k") in ("Construct", "TempObj") and len(it.get("a", [])) == 1:
                    it = view.value(it["a"][0])        # iterator -> const_iterator conversion
                at_pos = False
                if it.get("k") == "OpCall" and it.get("op") == "+" and len(it.get("a", [])) == 2:
                    bg = view.value(it["a"][0])
                    at_pos = bg.get("k") == "MCall" and bg.get("n") in ("begin", "cbegin") and view.value(bg.get("obj") or {}).get("d") == b["d"] and is_pos(it["a"][1])
                rv = view.value(n["a"][1])
                while rv.get("k") in ("Construct", "TempObj") and len(rv.get("a", [])) == 1:
                    rv = view.value(rv["a"][0])
                if at_pos and rv.get("k") == "Ref" and rv.get("d") == (col_d if which == "idx" else lev_d):
                    sets[which].append(e)
                elif at_pos and ((rv.get("k") == "Ref" and rv.get("d") in (col_d, lev_d)) or rv.get("k") == "Int"):
                    wrong_insert.append(which)      # the other parameter / a constant is stored in the new entry
    if not pushes:
        ck.incomplete(rule, "%s::_insert: no push_back/insert that creates the new entry found" % inst)
    else:
        bad = list(wrong_insert)
        for which in ("idx", "lvl"):
            first = pushes[0]
            if which in bad:
                continue
            if not sets[which] or (first not in sets[which] and view.flow_from(first, stop=set(sets[which]))[1]):
                bad.append(which)
        if bad and not wrong_insert and any((view.byid.get(e) or {}).get("n") in ("insert", "emplace") for e in stmts_of(view)):
            ck.incomplete(rule, "%s::_insert: new entry created by vector::insert — not modelled" % inst)
        else:
            ck.ob(rule, "%s::_insert/new entry" % inst, not bad,
                  "a new entry stores (column, level) = (col, l) at the insertion position" if not bad else
                  "after the insertion %s[pos] is not set to the %s on every path" % (bad[0], "column" if bad[0] == "idx" else "new level"), ins.file, ins.line)
    # ---------------- factorize_symbolic ----------------
    v2 = FnView(fs)
    p_d = fs.params[0]["d"] if fs.params else None

    def vec_elem(n):
        """(local vector name, index node) for local_vector[idx]"""
        n = v2.value(n)
        if n.get("k") == "OpCall" and n.get("op") == "[]" and len(n.get("a", [])) == 2:
            b = strip(n["a"][0])
            if b.get("k") == "Ref" and b.get("dk") == "local":
                return b["n"], b["d"], n["a"][1]
        return None
    # roles of the local work vectors, from dataflow rather than from their names: the vector that receives
    # push_back(_col_idx_<f>[j]) (or is finally moved into _col_idx_<f>) is the index vector of factor f, the vector that
    # receives a constant in the same loop is its level vector
    roles = {}          # decl id -> ('idx' | 'lvl', 'l' | 'u')

    def local_vec(n):
        n = strip(n)
        return n if n.get("k") == "Ref" and n.get("dk") == "local" else None
    for lp in walk(fs.body):
        if lp.get("k") not in ("For", "While"):
            continue
        body = lp.get("body") or {}
        pushes = [x for x in pcmodel.flat(body.get("s", []) if body.get("k") == "Block" else [body]) if x.get("k") == "MCall" and x.get("n") in ("push_back", "emplace_back") and x.get("a") and local_vec(x.get("obj") or {})]
        fam_here = None
        for x in pushes:
            el = element(v2, v2.value(x["a"][0]))
            if el and el[0].startswith("_col_idx_"):
                fam_here = el[0][len("_col_idx_"):]
                roles[local_vec(x["obj"])["d"]] = ("idx", fam_here)
        if fam_here:
            for x in pushes:
                if v2.value(x["a"][0]).get("k") == "Int":
                    roles.setdefault(local_vec(x["obj"])["d"], ("lvl", fam_here))
    for n in walk(fs.body):
        if n.get("k") in ("OpCall", "Assign") and (n.get("op") == "="):
            lhs, rhs = (n["a"][0], n["a"][1]) if n["k"] == "OpCall" and len(n.get("a", [])) == 2 else (n.get("lhs"), n.get("rhs"))
            fld = pcsym.this_field(lhs or {})
            r = strip(rhs or {})
            if r.get("k") == "Call" and r.get("callee", "").endswith("std::move") and r.get("a"):
                r = strip(r["a"][0])
            if fld and fld.startswith("_col_idx_") and local_vec(r):
                roles.setdefault(r["d"], ("idx", fld[len("_col_idx_"):]))

    def role_of(ref):
        """('idx'|'lvl', fam) of a local vector: dataflow role, else its name (new_idx_l ...), else None"""
        if ref.get("d") in roles:
            return roles[ref["d"]]
        nm = ref.get("n", "")
        f_ = "l" if nm.endswith("_l") else ("u" if nm.endswith("_u") else None)
        kind_ = "lvl" if "lvl" in nm else ("idx" if "idx" in nm else None)
        return (kind_, f_) if f_ and kind_ else None
    calls = [n for n in walk(fs.body) if n.get("k") in ("MCall", "Call") and (n.get("n") == "_insert" or (n.get("callee") or "").endswith("::_insert"))]
    if not calls:
        ck.incomplete(rule, "%s::factorize_symbolic: no call of _insert found" % inst)
    seen = {}
    for c in calls:
        a = c.get("a", [])
        if len(a) != 5:
            ck.incomplete(rule, "%s::factorize_symbolic: _insert called with %d arguments" % (inst, len(a)))
            continue
        tgt_idx, tgt_lvl = strip(a[0]), strip(a[1])
        # level argument as a sum of array elements and constants
        terms = []
        const = [0]
        ok_form = [True]

        def collect(n):
            n = v2.value(n)
            if n.get("k") == "Bin" and n.get("op") == "+":
                collect(n["lhs"])
                collect(n["rhs"])
            elif n.get("k") == "Int":
                const[0] += int(n["v"])
            elif vec_elem(n):
                terms.append(vec_elem(n))
            else:
                ok_form[0] = False
        collect(a[4])
        col = vec_elem(a[3])
        if not ok_form[0] or col is None:
            ck.incomplete(rule, "%s::factorize_symbolic: _insert(…, %s, %s): column / level arguments are not array elements and sums of level entries" % (inst, render(a[3]), render(a[4])))
            continue
        ri, rl = role_of(tgt_idx), role_of(tgt_lvl)
        rterms = [(role_of({"n": t[0], "d": t[1]}), t) for t in terms]
        rcol = role_of({"n": col[0], "d": col[1]})
        if ri is None or rl is None or rcol is None or any(r is None for r, t in rterms):
            ck.incomplete(rule, "%s::factorize_symbolic: _insert(%s): the role (index / level vector of L or U) of a work vector could not be derived" % (inst, ", ".join(render(x) for x in a)))
            continue
        tf = ri[1]
        key = "%s::factorize_symbolic/insert into %s" % (inst, tf.upper())
        seen[key] = seen.get(key, 0) + 1
        if seen[key] > 1:
            key += "#%d" % seen[key]
        problems = []
        if ri[0] != "idx" or rl != ("lvl", tf):
            problems.append("index and level vectors %s / %s are not the pair of one factor" % (tgt_idx.get("n"), tgt_lvl.get("n")))
        tl = sorted((r[1], r[0] == "lvl") for r, t in rterms)
        lt = ut = None
        if tl != [("l", True), ("u", True)] or const[0] != 1:
            problems.append("level argument is %s; the level-of-fill recurrence is lev(L_ij) + lev(U_jk) + 1" % (" + ".join(["%s[%s]" % (t[0], render(t[2])) for t in terms] + ([str(const[0])] if const[0] else [])) or "0"))
        else:
            lt = [t for r, t in rterms if r[1] == "l"][0]
            ut = [t for r, t in rterms if r[1] == "u"][0]
            # the U level must belong to the entry whose column is inserted: same subscript as the column argument
            if rcol != ("idx", "u") or render(v2.value(col[2])) != render(v2.value(ut[2])):
                problems.append("inserted column %s[%s] and U level %s[%s] do not belong to the same entry U_jk" % (col[0], render(col[2]), ut[0], render(ut[2])))
        ck.ob(rule, key, not problems, "; ".join(problems) if problems else
              "_insert(%s, %s, ·, %s[%s], %s[%s] + %s[%s] + 1)" % (tgt_idx.get("n"), tgt_lvl.get("n"), col[0], render(col[2]), lt[0], render(lt[2]), ut[0], render(ut[2])),
              fs.file, c.get("l"))
    # pruning: entries with level <= p are inserted
    guards = []
    for n in walk(fs.body):
        if n.get("k") == "If":
            c = pcmodel.norm_cmp(v2.value(n.get("c") or {})) or {}     # !(ll > p) == ll <= p; named condition
            if c.get("k") == "Bin" and c.get("op") in ("<", "<=", ">", ">="):
                l, r = v2.value(c["lhs"]), v2.value(c["rhs"])
                lp, rp = (l.get("k") == "Ref" and l.get("d") == p_d), (r.get("k") == "Ref" and r.get("d") == p_d)
                other = r if lp else l
                level_args = [v2.value(c2["a"][4]) for c2 in calls if len(c2.get("a", [])) == 5]
                if lp != rp and (lp or rp) and any(other is la or render(other) == render(la) for la in level_args):
                    op = c["op"] if rp else {"<": ">", ">": "<", "<=": ">=", ">=": "<="}[c["op"]]
                    guards.append((n, op))       # level op p
    if len(guards) != 1:
        ck.incomplete(rule, "%s::factorize_symbolic: %d comparisons of a computed level with the fill parameter p found (expected one)" % (inst, len(guards)))
    else:
        g, op = guards[0]
        ins_ids = {c.get("i") for c in calls}
        in_then = any(x.get("i") in ins_ids for x in walk(g.get("then") or {}))
        in_else = any(x.get("i") in ins_ids for x in walk(g.get("else") or {}))
        skips_then = any(x.get("k") in ("Continue", "Break") for x in walk(g.get("then") or {}))
        if in_then and not in_else:
            cond_insert = op                                   # inserted iff level op p
        elif skips_then and not in_then and not in_else:
            cond_insert = {">": "<=", ">=": "<", "<": ">=", "<=": ">"}[op]
        else:
            cond_insert = None
        if cond_insert is None:
            ck.incomplete(rule, "%s::factorize_symbolic: guard %s of the insertion not understood" % (inst, render(g)))
        else:
            ck.ob(rule, "%s::factorize_symbolic/level <= p" % inst, cond_insert == "<=",
                  "entries are inserted iff level %s p (ILU(p) keeps all entries of level <= p)" % cond_insert, fs.file, g.get("l"))
    # pattern entries of A start with level 0
    for fam_ in ("l", "u"):
        zero = [n for n in walk(fs.body) if n.get("k") == "MCall" and n.get("n") in ("push_back", "emplace_back") and n.get("a") and local_vec(n.get("obj") or {})
                and role_of(local_vec(n["obj"])) == ("lvl", fam_) and v2.value(n["a"][0]).get("k") == "Int"]
        if not zero:
            ck.incomplete(rule, "%s::factorize_symbolic: initial level of the pattern entries of %s not found" % (inst, fam_.upper()))
        else:
            vals = sorted({int(v2.value(n["a"][0])["v"]) for n in zero})
            ck.ob(rule, "%s::factorize_symbolic/level 0 of A in %s" % (inst, fam_.upper()), vals == [0], "entries of A enter %s with level %s" % (fam_.upper(), vals), fs.file, zero[0].get("l"))


def loop_stepped_by(view, w):
    """the loop whose induction step the increment statement w is: in the increment expression of a for-loop, or the last
    statement of the body of a for/while loop that has no `continue` (for <-> while conversion keeps this relation)"""
    p = view.parent.get(w.get("i"))
    child = w
    while p is not None:
        k = p.get("k")
        if k == "For" and p.get("inc") is not None and w.get("i") in {x.get("i") for x in walk(p["inc"])}:
            return p
        if k in ("For", "While"):
            body = p.get("body") or {}
            st = body.get("s", []) if body.get("k") == "Block" else [body]
            if st and strip(st[-1]).get("i") == w.get("i") and not any(x.get("k") == "Continue" for x in walk(body)):
                return p
            return None
        if k in ("If", "Switch", "Do", "Cond", "Lambda"):
            return None
        child, p = p, view.parent.get(p.get("i"))
    return None


def check_merge_cursor(ck, f, inst):
    """merge-cursor discipline of the sorted-row merges in factorize_numeric_il_du: a cursor into a sorted column-index list
    advances either as the increment of a loop that iterates / skips entries (`c < end`, `cidx[c] <= target`), or, in straight
    code, only under a successful match `cidx[c] == target` of the entry it points to"""
    rule = "E3.merge-cursor"
    view = FnView(f)
    cursors = {}
    for n in walk(f.body):
        el = element(view, n) if n.get("k") in ("Index", "OpCall") else None
        if el and el[0].startswith("_col_idx_"):
            ix = strip(el[1])
            if ix.get("k") == "Ref" and ix.get("dk") == "local":
                cursors.setdefault(ix["d"], (ix["n"], el[0]))
    if not cursors:
        ck.incomplete(rule, "%s: no cursor into a column-index array found" % inst)
        return

    def conjuncts(c):
        c = view.value(c)
        if c.get("k") == "Bin" and c.get("op") == "&&":
            return conjuncts(c["lhs"]) + conjuncts(c["rhs"])
        return [c]

    def mentions(n, d):
        return any(x.get("k") == "Ref" and x.get("d") == d for x in walk(n))

    def is_match(c, d):
        if c.get("k") == "Bin" and c.get("op") == "==":
            for x in (c["lhs"], c["rhs"]):
                el = element(view, x)
                if el and el[0].startswith("_col_idx_") and strip(el[1]).get("d") == d:
                    return True
        return False
    seen = {}

    def enclosing_loops(node_id):
        out = []
        q = view.parent.get(node_id)
        while q is not None:
            if q.get("k") in ("For", "While", "Do"):
                out.append(q)
            q = view.parent.get(q.get("i"))
        return out

    def init_sites(d):
        """statement ids that (re)position variable d: its declaration with initialiser, plain assignments, for-init"""
        out = []
        if d in view.decl_stmt and view.locals[d].get("init") is not None:
            out.append(view.decl_stmt[d])
        out += [w["i"] for w in view.writes.get(d, []) if w.get("k") == "Assign" and w.get("op") == "="]
        return out
    # (re)initialisation: a cursor that skips entries up to a target taken from another traversal restarts with that traversal
    for d, (nm, arr) in sorted(cursors.items(), key=lambda kv: kv[1][0]):
        targets = set()
        for w in view.writes.get(d, []):
            if not pcmodel.is_step(w):
                continue
            q = loop_stepped_by(view, w)
            if q is None:
                continue
            for c in conjuncts(q.get("c") or {}):
                if c.get("k") == "Bin" and c.get("op") in ("<", "<=", ">", ">="):
                    for x, y in ((c["lhs"], c["rhs"]), (c["rhs"], c["lhs"])):
                        el = element(view, x)
                        if el and el[0].startswith("_col_idx_") and strip(el[1]).get("d") == d:
                            for z in walk(view.value(y)):
                                el2 = element(view, z) if z.get("k") in ("Index", "OpCall") else None
                                if el2 and el2[0].startswith("_col_idx_") and strip(el2[1]).get("k") == "Ref" and strip(el2[1]).get("d") != d:
                                    targets.add((strip(el2[1])["d"], strip(el2[1])["n"]))
        for td, tn in sorted(targets, key=lambda t: t[1]):
            ci, ti = init_sites(d), init_sites(td)
            key = "%s/%s: restarted with %s" % (inst, nm, tn)
            if not ci or not ti:
                ck.incomplete(rule, "%s: initialisation of %s / %s not found" % (key, nm, tn))
                continue
            bad = None
            for t0 in ti:
                tl = enclosing_loops(t0)
                if not tl:
                    continue
                inner = tl[0]
                for c0 in ci:
                    if inner.get("i") not in {l.get("i") for l in enclosing_loops(c0)}:
                        bad = (c0, inner)
            ck.ob(rule, key, bad is None,
                  "%s skips entries up to column %s[%s]; both are (re)positioned inside the same loop" % (nm, arr[1:].replace("col_idx", "cidx"), tn) if bad is None else
                  "%s skips entries up to the column of %s, whose traversal restarts in every iteration of `%s`, but %s is positioned outside that loop (line %s): "
                  "entries it has passed for an earlier traversal are never updated by a later one (patterns with triangles, ILU(p>0))" % (
                      nm, tn, render(bad[1]), nm, view.byid[bad[0]].get("l")), f.file, view.byid[(bad[0] if bad else ci[0])].get("l"))
    # row end: a cursor positioned at row_ptr_X[r] is bounded by row_ptr_X[r+1] in every test `cursor < bound`
    def row_of(n, depth=0):
        """(row pointer field, (variable, offset)) if n == row_ptr_X[var + offset], through named constants and through
        another index variable the cursor is started from (`pl = j` with `j = rptr_l[i]`)"""
        v = view.value(n)
        el = element(view, v)
        if el and el[0].startswith("_row_ptr_"):
            af = norm_c08.affine(view, el[1])
            return (el[0], af) if af is not None and af[0] is not None else None
        if v.get("k") == "Ref" and v.get("dk") == "local" and depth < 3:
            sites = init_sites(v["d"])
            vals = set()
            for sid in sites:
                st = view.byid.get(sid) or {}
                src = st.get("rhs") if st.get("k") == "Assign" else next((x.get("init") for x in st.get("vars", []) if x.get("d") == v["d"]), None)
                vals.add(row_of(src, depth + 1) if src is not None else None)
            if len(vals) == 1:
                return vals.pop()
        return None
    for d, (nm, arr) in sorted(cursors.items(), key=lambda kv: kv[1][0]):
        starts = set()
        for sid in init_sites(d):
            st = view.byid.get(sid) or {}
            src = st.get("rhs") if st.get("k") == "Assign" else next((x.get("init") for x in st.get("vars", []) if x.get("d") == d), None)
            starts.add(row_of(src) if src is not None else None)
        bounds = []
        for n in walk(f.body):
            if n.get("k") == "Bin" and n.get("op") in ("<", "<=", ">", ">=", "!="):
                for x, y in ((n["lhs"], n["rhs"]), (n["rhs"], n["lhs"])):
                    if strip(x).get("k") == "Ref" and strip(x).get("d") == d and not (strip(y).get("k") == "Ref" and strip(y).get("d") in cursors):
                        bounds.append((n, y))
        key = "%s/%s: row end" % (inst, nm)
        if not bounds:
            continue
        if None in starts or len(starts) != 1:
            ck.incomplete(rule, "%s: the start position of %s is not row_ptr[row] of one row pointer array" % (key, nm))
            continue
        fld, (rv, ro) = next(iter(starts))
        bad = unknown = None
        for n, y in bounds:
            b = row_of(y)
            if b is None:
                unknown = (n, y)
            elif b != (fld, (rv, ro + 1)):
                bad = (n, y, b)
        if bad is None and unknown is not None:
            ck.incomplete(rule, "%s: bound `%s` (line %s) is not an element of a row pointer array" % (key, render(unknown[1]), unknown[0].get("l")))
            continue
        ck.ob(rule, key, bad is None,
              "%s starts at %s[row] and every test bounds it by %s[row+1]" % (nm, fld[1:], fld[1:]) if bad is None else
              "%s starts at %s[row] but `%s` (line %s) bounds it by %s[row%+d]: the traversal %s" % (
                  nm, fld[1:], render(bad[0]), bad[0].get("l"), bad[2][0][1:], bad[2][1][1] - ro,
                  "stops at once (empty row segment)" if bad[2][0] == fld and bad[2][1][1] <= ro else "runs over entries of another row / factor"),
              f.file, (bad[0] if bad else bounds[0][0]).get("l"))
    for d, (nm, arr) in sorted(cursors.items(), key=lambda kv: kv[1][0]):
        for w in view.writes.get(d, []):
            if not pcmodel.is_step(w):
                continue      # (re)positioning by assignment
            # increment of a loop?
            loop = None
            p = view.parent.get(w.get("i"))
            child = w
            chain = []
            while p is not None:
                chain.append((p, child))
                child, p = p, view.parent.get(p.get("i"))
            key = None
            verdict = None
            loop = loop_stepped_by(view, w)
            if loop is not None:
                cj = conjuncts(loop.get("c") or {})
                own = [c for c in cj if mentions(c, d)]
                key = "%s/%s: loop increment" % (inst, nm)
                if not own:
                    ck.incomplete(rule, "%s: loop %s advances %s without testing it" % (inst, render(loop), nm))
                    continue
                verdict = (True, "advances as the increment of the loop `%s`" % " && ".join(render(c) for c in own))
            else:
                guards = []
                unknown = None
                for par, ch in chain:
                    if par.get("k") == "If":
                        in_then = par.get("then") is not None and ch.get("i") in {x.get("i") for x in walk(par["then"])}
                        cv = view.value(par.get("c") or {})
                        if not in_then:
                            unknown = "the advance sits in the else-branch of `%s`" % render(cv)
                        elif cv.get("k") == "Bin" and cv.get("op") == "||":
                            unknown = "condition `%s`" % render(cv)
                        else:
                            guards += conjuncts(cv)
                    elif par.get("k") in ("For", "While", "Do"):
                        break
                key = "%s/%s: advance after a match" % (inst, nm)
                if any(is_match(g, d) for g in guards):
                    verdict = (True, "`%s` is executed only if `%s`" % (render(w), " && ".join(render(g) for g in guards)))
                elif unknown:
                    ck.incomplete(rule, "%s: advance `%s` (line %s): %s" % (inst, render(w), w.get("l"), unknown))
                    continue
                else:
                    verdict = (False, "`%s` is executed whenever `%s`, also when the entry %s[%s] does not match the wanted column: the unmatched entry is skipped and never processed (structurally unsymmetric patterns)" % (
                        render(w), " && ".join(render(g) for g in guards) or "always", arr[1:], nm))
            seen[key] = seen.get(key, 0) + 1
            if seen[key] > 1:
                key += "#%d" % seen[key]
            ck.ob(rule, key, verdict[0], verdict[1], f.file, w.get("l"))


# -------------------------------------------------------------------------------------------------
# storage that init_numeric fills only partially must be re-initialised on every init_numeric (Vanka local matrices)
# -------------------------------------------------------------------------------------------------

def check_partial_fill_reinit(ck, facts, cls, inst):
    """For every std::vector member M of the class that apply() reads: if a function reached from init_numeric hands a
    pointer into M to a routine that stores only under a match test (gather of the structural non-zeros), then M is
    re-initialised over its whole extent (memset / std::fill / assign / full loop) before, on every path, in that
    function or in init_numeric before the call"""
    rule = "E8.partial-fill-reinit"
    fns = {}
    for f in facts.functions:
        if f.tk != "pattern" and f.cls == cls:
            fns.setdefault(f.name, f)
    if "init_numeric" not in fns or "apply" not in fns:
        ck.incomplete(rule, "%s: init_numeric / apply vanished" % inst)
        return
    S = Summaries(facts)
    applied = S.analyse(fns["apply"])["reads"]
    byclsname = {}
    for f in facts.functions:
        if f.tk != "pattern":
            byclsname.setdefault((f.cls, f.name, len(f.params)), f)

    def base_member(view, n, depth=0):
        """(member name, is_base_pointer) if n is a pointer into a vector member: M.data(), &M[..], alias, &alias[off], alias + off"""
        n = strip(n)
        if depth > 10:
            return None
        k = n.get("k")
        if k == "MCall" and n.get("n") in ("data", "begin") and pcsym.this_field(n.get("obj") or {}):
            return pcsym.this_field(n["obj"]), True
        if k == "Un" and n.get("op") == "&":
            e = strip(n["e"])
            if e.get("k") == "Index":
                r = base_member(view, e["b"], depth + 1)
                return (r[0], False) if r else None
            if e.get("k") == "OpCall" and e.get("op") == "[]" and pcsym.this_field(e["a"][0]):
                return pcsym.this_field(e["a"][0]), False
        if k == "Bin" and n.get("op") in ("+", "-"):
            r = base_member(view, n["lhs"], depth + 1)
            return (r[0], False) if r else None
        if k == "Ref" and n.get("dk") == "local":
            var = view.locals.get(n["d"])
            if var is not None and not view.writes.get(n["d"]) and var.get("init") is not None and "*" in view.fn.type(var["t"]):
                return base_member(view, var["init"], depth + 1)
        return None

    def callee_store_kind(call, argpos):
        """'partial' if every store through the callee's pointer parameter is control-dependent on an if; 'full?' if some
        store is unconditional; None if the callee body is not available"""
        cal = byclsname.get((call.get("ccls"), (call.get("callee") or "").rsplit("::", 1)[-1], len(call.get("pn") or [])))
        if cal is None or argpos >= len(cal.params):
            return None
        cv = FnView(cal)
        pd = cal.params[argpos]["d"]
        stores = []
        for n in walk(cal.body):
            tgt = None
            if n.get("k") == "Assign":
                tgt = strip(n["lhs"])
            elif n.get("k") == "OpCall" and n.get("op") in ("=", "+=", "-=") and n.get("a"):
                tgt = strip(n["a"][0])
            while tgt is not None and tgt.get("k") in ("Index",) :
                b = strip(tgt["b"])
                if b.get("k") == "Ref" and b.get("d") == pd:
                    cond = False
                    q = cv.parent.get(n.get("i"))
                    while q is not None:
                        if q.get("k") in ("If", "Cond", "Switch"):
                            cond = True
                        q = cv.parent.get(q.get("i"))
                    stores.append(cond)
                    break
                tgt = b if b.get("k") == "Index" else None
        if not stores:
            return None
        return "partial" if all(stores) else "full?"

    def loop_ids(view, loop):
        """statements that represent 'the loop was executed' on a path: everything inside it and, for a counter declared
        or set in front of the loop (while form), that declaration / assignment"""
        ids = {x.get("i") for x in walk(loop)}
        try:
            c = pcmodel.counting_loop(view, loop)
            if c["d"] in view.decl_stmt and view.decl_stmt[c["d"]] not in ids:
                ws = [w for w in view.writes.get(c["d"], []) if w.get("i") not in ids]
                ids |= {ws[0]["i"]} if ws else {view.decl_stmt[c["d"]]}
        except NotRecognised:
            pass
        return ids

    def other_stores(view, g, member):
        """stores into the member (through itself, an alias pointer or an iterator) inside loops, and calls that receive an
        iterator / the member itself: candidates for a re-initialisation the table does not know"""
        out = []
        for lp in walk(g.body):
            if lp.get("k") not in ("For", "While", "Do", "ForRange"):
                continue
            counter = None
            try:
                counter = pcmodel.counting_loop(view, lp)["d"] if lp.get("k") in ("For", "While") else None
            except NotRecognised:
                pass
            for x in walk(lp):
                tgt = None
                if counter is not None and x.get("k") == "Assign" and strip(x["lhs"]).get("k") == "Index":
                    af = norm_c08.affine(view, strip(x["lhs"])["idx"])
                    if af is not None and af[0] == counter:
                        continue        # an understood counting loop over part of the array: not a whole-array initialisation
                if x.get("k") == "Assign" and x.get("op") == "=":
                    rv = view.value(x["rhs"])
                    while rv.get("k") in ("Construct", "TempObj") and len(rv.get("a", [])) == 1:
                        rv = view.value(rv["a"][0])
                    if rv.get("k") in ("Int", "Float") or (rv.get("k") in ("Construct", "TempObj", "ValueInit") and not rv.get("a")):
                        tgt = strip(x["lhs"])       # a constant is stored: a (re-)initialisation, not a computation
                if tgt is None:
                    continue
                while tgt.get("k") in ("Index", "Un", "OpCall"):
                    tgt = strip(tgt.get("b") or tgt.get("e") or (tgt.get("a") or [{}])[0])
                bm = base_member(view, tgt) or ((pcsym.this_field(tgt), True) if pcsym.this_field(tgt) else None)
                if bm and bm[0] == member:
                    out.append("it is written in the loop at line %s" % lp.get("l"))
                elif tgt.get("k") == "Ref" and tgt.get("dk") == "local" and (view.locals.get(tgt["d"]) or {}).get("init") is not None:
                    b2 = base_member(view, view.locals[tgt["d"]]["init"])
                    if b2 and b2[0] == member:
                        out.append("it is written through the cursor %s in the loop at line %s" % (tgt.get("n"), lp.get("l")))
        for x in walk(g.body):
            if x.get("k") in ("Call", "MCall") and x.get("n") not in ("data", "size", "begin", "end") and (
                    x.get("k") == "MCall" or (x.get("callee") or "").startswith("std::") or "mem" in (x.get("callee") or "").rsplit("::", 1)[-1]):
                for a_ in ([x.get("obj")] if x.get("k") == "MCall" and not x.get("cconst") else []) + list(x.get("a", [])):
                    if a_ is not None and any(pcsym.this_field(y) == member for y in walk(a_) if y.get("k") == "Member") and not is_full_init(view, x, member):
                        out.append("it is used by %s (line %s)" % (x.get("n") or (x.get("callee") or "").rsplit("::", 1)[-1], x.get("l")))
        return out

    def is_full_init(view, n, member):
        """statement n (re)initialises the whole of member"""
        k = n.get("k")
        nm = (n.get("callee") or n.get("n") or "").rsplit("::", 1)[-1]
        args = n.get("a", [])
        size_of_m = lambda x: any(y.get("k") == "MCall" and y.get("n") == "size" and pcsym.this_field(view.value(y.get("obj") or {})) == member for y in walk(view.value(x)))
        if k == "Call" and nm == "memset" and len(args) == 3:
            bm = base_member(view, args[0])
            return bool(bm and bm[0] == member and bm[1] and size_of_m(args[2]))
        if k == "Call" and nm in ("fill", "fill_n") and len(args) == 3:
            bm = base_member(view, args[0])
            if bm and bm[0] == member and bm[1]:
                if nm == "fill_n":
                    return size_of_m(args[1])
                e = strip(args[1])
                return e.get("k") == "MCall" and e.get("n") == "end" and pcsym.this_field(e.get("obj") or {}) == member
        if k == "MCall" and nm == "assign" and pcsym.this_field(n.get("obj") or {}) == member:
            return True
        if k in ("For", "While"):
            try:
                c = pcmodel.counting_loop(view, n)
                roff = full_row_loop(view, c, is_n=size_of_m)
                if roff is not None:
                    for st in pcmodel.flat(c["stmts"]):
                        st = strip(st)
                        if st.get("k") == "Assign" and st.get("op") == "=" and strip(st["lhs"]).get("k") in ("Index", "OpCall"):
                            t = strip(st["lhs"])
                            b = t["b"] if t.get("k") == "Index" else t["a"][0]
                            ix = t["idx"] if t.get("k") == "Index" else t["a"][1]
                            bm = base_member(view, b) or ((pcsym.this_field(b), True) if pcsym.this_field(b) else None)
                            if bm and bm[0] == member and bm[1] and is_idx(view, ix, c["d"], roff):
                                return True
            except NotRecognised:
                return False
        return False
    # functions reached from init_numeric: the analysis units.  A unit is a function that hands the member to a gather
    # routine; other private helpers (an extracted zeroing block, ...) are inlined into the unit that calls them.
    vinl = norm_c08.Inliner(facts)

    def is_unit(g):
        gv = FnView(g)
        for x in walk(g.body):
            if x.get("k") == "MCall" and any(base_member(gv, a) for a in x.get("a", [])) and callee_store_kind(x, [bool(base_member(gv, a)) for a in x["a"]].index(True)) == "partial":
                return True
        return False
    units = {nm for nm, g in fns.items() if g.body is not None and is_unit(g)} | {"init_numeric", "apply"}
    not_unit = lambda call, cal: cal.name not in units
    ini = vinl.inline(fns["init_numeric"], want=not_unit)
    iv = FnView(ini)
    reached = []
    for e in stmts_of(iv):
        n = iv.byid.get(e)
        if n and n.get("k") == "MCall" and (n.get("obj") is None or strip(n["obj"]).get("k") == "This") and n.get("n") in fns:
            reached.append((vinl.inline(fns[n["n"]], want=not_unit), e))
    reached.append((ini, None))
    count = 0
    for f, call_id in reached:
        view = FnView(f)
        partial = {}      # member -> [(stmt id, text)]
        maybe_init = {}
        for e in stmts_of(view):
            n = view.byid.get(e)
            if not n or n.get("k") not in ("MCall", "Call"):
                continue
            for pos, a in enumerate(n.get("a", [])):
                bm = base_member(view, a)
                if not bm or bm[0].rsplit("::", 1)[-1] not in {m.rsplit("::", 1)[-1] for m in applied}:
                    continue
                pt = n.get("pt") or []
                ty = f.type(pt[pos]) if pos < len(pt) else ""
                if ty.strip().startswith("const "):
                    continue
                if is_full_init(view, n, bm[0]):
                    continue
                kind = callee_store_kind(n, pos) if n.get("k") == "MCall" else None
                if kind == "partial":
                    partial.setdefault(bm[0], []).append((e, "%s (stores only under a match test)" % (n.get("n") or n.get("callee"))))
                elif bm[1]:
                    maybe_init.setdefault(bm[0], []).append("%s (line %s)" % (n.get("n") or (n.get("callee") or "").rsplit("::", 1)[-1], n.get("l")))
        for member, plist in sorted(partial.items()):
            count += 1
            inits = [e for e in stmts_of(view) if view.byid.get(e) is not None and is_full_init(view, view.byid[e], member)]
            inits += [n["i"] for n in walk(f.body) if n.get("k") in ("For", "While") and is_full_init(view, n, member)]
            first_use = [e for e, t in plist]
            ok = False
            if inits:
                # every path to a partial write passes an initialisation (a for-loop node is represented by its statements)
                stop = set()
                for i0 in inits:
                    nd = view.byid.get(i0)
                    stop |= loop_ids(view, nd) if nd is not None and nd.get("k") in ("For", "While") else {i0}
                reach, _ = view.flow_from(None, stop=stop)
                ok = not any(e in reach for e in first_use)
            if not ok and call_id is not None:
                # in init_numeric, before the call
                inits2 = [e for e in stmts_of(iv) if iv.byid.get(e) is not None and is_full_init(iv, iv.byid[e], member)]
                inits2 += [n["i"] for n in walk(ini.body) if n.get("k") in ("For", "While") and is_full_init(iv, n, member)]
                if inits2:
                    stop = set()
                    for i0 in inits2:
                        nd = iv.byid.get(i0)
                        stop |= loop_ids(iv, nd) if nd is not None and nd.get("k") in ("For", "While") else {i0}
                    reach, _ = iv.flow_from(None, stop=stop)
                    ok = call_id not in reach
            key = "%s::%s/%s" % (inst, f.name, member)
            if ok:
                ck.ob(rule, key, True, "%s is re-initialised over its whole extent before %s fills it partially" % (member, plist[0][1]), f.file, view.byid[first_use[0]].get("l"))
            elif maybe_init.get(member):
                ck.incomplete(rule, "%s: no modelled whole-array initialisation of %s, but its base pointer is handed to %s" % (key, member, maybe_init[member][0]))
            elif other_stores(view, f, member) or (call_id is not None and other_stores(iv, ini, member)):
                ck.incomplete(rule, "%s: no modelled whole-array initialisation of %s, but %s, which is not one of the modelled forms (memset / std::fill / assign / counting loop over size())" % (
                    key, member, (other_stores(view, f, member) or other_stores(iv, ini, member))[0]))
            else:
                ck.ob(rule, key, False, "%s is read by apply() and filled here only at the structural non-zeros (%s), but nothing re-initialises it on every path before: "
                      "a second init_numeric() on the same object builds on the data of the previous factorisation" % (member, plist[0][1]), f.file, view.byid[first_use[0]].get("l"))
    if count == 0:
        ck.incomplete(rule, "%s: no partially filled member found (gather routines vanished?)" % inst)


# -------------------------------------------------------------------------------------------------
# a work array that a gather routine fills only at the structural non-zeros is in its reset state at every gather
# -------------------------------------------------------------------------------------------------

def check_scratch_reset(ck, facts, f, inst, inl):
    """E8.scratch-reset on one function (AmaVanka::init_numeric): forward may-dataflow over the CFG with the state
    clean / dirty per work array.  clean: zero-initialised declaration (std::vector<T> v(n), v(n, 0)), whole-array
    memset / std::fill / assign, or a loop nest that does nothing but store the constant 0 into the array;
    dirty: any other store, and every callee that receives the array through a non-const pointer;
    obligation at every call of a *gather* routine (a callee all of whose stores through that parameter are conditional on a
    pattern match, directly or through the gather routines it calls): the array is clean on every path reaching it —
    the path from the previous iteration of an enclosing loop (`continue` included) is such a path."""
    rule = "E8.scratch-reset"
    # private member helpers of the class are inlined; the kernels of AmaVankaCore (gather, scatter_add, ...) stay calls
    f = inl.inline(f, want=lambda call, cal: call.get("k") == "MCall" and cal.name not in ANCHORED)
    view = FnView(f)

    def array_of(n, depth=0):
        """decl id of the local std::vector / array a pointer expression points into (base pointer only), else None"""
        n = strip(n)
        if depth > 8:
            return None
        if n.get("k") == "Ref" and n.get("dk") == "local":
            var = view.locals.get(n["d"])
            if var is None:
                return None
            ty = f.type(var.get("t"))
            if "std::vector" in ty or "[" in ty:
                return n["d"]
            if "*" in ty and not view.writes.get(n["d"]) and var.get("init") is not None:
                return array_of(var["init"], depth + 1)
            return None
        if n.get("k") == "MCall" and n.get("n") in ("data", "begin") and n.get("obj") is not None and not n.get("a"):
            return array_of(n["obj"], depth + 1)
        if n.get("k") in ("Construct", "TempObj") and len(n.get("a", [])) == 1:
            return array_of(n["a"][0], depth + 1)
        if n.get("k") == "Un" and n.get("op") == "&":
            e = strip(n["e"])
            if e.get("k") in ("Index", "OpCall"):
                b = e["b"] if e.get("k") == "Index" else e["a"][0]
                ix = view.value(e["idx"] if e.get("k") == "Index" else e["a"][1])
                if ix.get("k") == "Int" and int(ix["v"]) == 0:
                    return array_of(b, depth + 1)
        return None

    partial_memo = {}

    def partial_param(cal, pos, depth=0):
        """True: every store through parameter pos of callee `cal` is conditional (directly, or done by gather routines it
        hands the pointer to); False: some store is unconditional; None: unknown / no store"""
        key = (cal.d.get("decl"), pos)
        if key in partial_memo:
            return partial_memo[key]
        partial_memo[key] = None
        if cal.body is None or pos >= len(cal.params) or depth > 4:
            return None
        cv = FnView(cal)
        pd = cal.params[pos]["d"]
        res = []
        for n in walk(cal.body):
            tgt = None
            if n.get("k") == "Assign":
                tgt = strip(n["lhs"])
            elif n.get("k") == "OpCall" and n.get("op") in ("=", "+=", "-=") and n.get("a"):
                tgt = strip(n["a"][0])
            while tgt is not None and tgt.get("k") == "Index":
                b = strip(tgt["b"])
                if b.get("k") == "Ref" and b.get("d") == pd:
                    q = cv.parent.get(n.get("i"))
                    cond = False
                    while q is not None:
                        if q.get("k") in ("If", "Cond", "Switch"):
                            cond = True
                        q = cv.parent.get(q.get("i"))
                    res.append(cond)
                    break
                tgt = b if b.get("k") == "Index" else None
            if n.get("k") in ("Call", "MCall"):
                for i2, a in enumerate(n.get("a", [])):
                    av = strip(a)
                    if av.get("k") == "Ref" and av.get("d") == pd:
                        pt = n.get("pt") or []
                        ty = cal.type(pt[i2]) if i2 < len(pt) else ""
                        if ty.strip().startswith("const "):
                            continue
                        c2 = inl.bydecl.get(n.get("cdecl"))
                        r2 = partial_param(c2, i2, depth + 1) if c2 is not None else None
                        if r2 is not None:
                            res.append(r2)
                        elif c2 is None or c2.body is None:
                            res.append(False)       # an unknown callee may store anywhere
        out = None if not res else all(res)
        partial_memo[key] = out
        return out

    def zeroing_param(cal, pos):
        """the callee stores through parameter pos, unconditionally, nothing but the constant 0 (a reset helper)"""
        if cal is None or cal.body is None or pos >= len(cal.params):
            return False
        cv = FnView(cal)
        pd = cal.params[pos]["d"]
        stores = 0
        for n in walk(cal.body):
            if n.get("k") in ("Call", "MCall") and any(strip(a).get("k") == "Ref" and strip(a).get("d") == pd for a in n.get("a", [])):
                nm = (n.get("callee") or n.get("n") or "").rsplit("::", 1)[-1]
                if nm in ("memset", "fill", "fill_n"):
                    stores += 1
                    continue
                return False
            if n.get("k") != "Assign":
                continue
            t = strip(n["lhs"])
            if t.get("k") == "Index" and strip(t["b"]).get("k") == "Ref" and strip(t["b"]).get("d") == pd:
                rv = cv.value(n["rhs"])
                while rv.get("k") in ("Construct", "TempObj") and len(rv.get("a", [])) == 1:
                    rv = cv.value(rv["a"][0])
                zero = (rv.get("k") in ("Int", "Float") and float(rv["v"]) == 0.0) or (rv.get("k") in ("Construct", "TempObj", "ValueInit") and not rv.get("a"))
                q = cv.parent.get(n.get("i"))
                while q is not None:
                    if q.get("k") in ("If", "Cond", "Switch"):
                        return False
                    q = cv.parent.get(q.get("i"))
                if not zero or n.get("op") != "=":
                    return False
                stores += 1
        return stores > 0

    def zero_nest(n, arr):
        """the statement is a loop nest that only stores the constant 0 into array arr"""
        if n.get("k") not in ("For", "While"):
            return False
        body = n.get("body") or {}
        st = pcmodel.flat(body.get("s", []) if body.get("k") == "Block" else [body])
        st = [x for x in st if not (n.get("k") == "While" and pcmodel.is_step(strip(x)))]
        if len(st) != 1:
            return False
        x = strip(st[0])
        if x.get("k") in ("For", "While"):
            return zero_nest(x, arr)
        if x.get("k") == "Assign" and x.get("op") == "=" and strip(x["lhs"]).get("k") in ("Index", "OpCall"):
            t = strip(x["lhs"])
            b = t["b"] if t.get("k") == "Index" else t["a"][0]
            rv = view.value(x["rhs"])
            while rv.get("k") in ("Construct", "TempObj") and len(rv.get("a", [])) == 1:
                rv = view.value(rv["a"][0])
            zero = (rv.get("k") in ("Int", "Float") and float(rv["v"]) == 0.0) or (rv.get("k") in ("Construct", "TempObj", "ValueInit") and not rv.get("a"))
            return zero and array_of(b) == arr
        return False

    # events per CFG element
    events = {}        # stmt id -> [(arr, 'clean' | 'dirty' | 'gather', node)]
    gathers = []
    zero_ids = {}
    for n in walk(f.body):
        if n.get("k") in ("For", "While"):
            for arr in [d for d, var in view.locals.items() if "std::vector" in f.type(var.get("t")) or "[" in f.type(var.get("t"))]:
                if zero_nest(n, arr):
                    inner = {x.get("i") for x in walk(n)}
                    zero_ids.setdefault(arr, set()).update(inner)
                    # the reset takes effect where the nest is entered: its first CFG element
                    first = None
                    for b in view.cfg.blocks.values():
                        for e in b["el"]:
                            if e in inner and (first is None or (view.byid[e].get("l") or 0, e) < (view.byid[first].get("l") or 0, first)):
                                first = e
                    init = n.get("init")
                    anchor = init.get("i") if isinstance(init, dict) and init.get("i") is not None and view.pos(init.get("i")) else first
                    if anchor is not None:
                        events.setdefault(anchor, []).append((arr, "clean", n))
    for b in view.cfg.blocks.values():
        for e in b["el"]:
            n = view.byid.get(e)
            if n is None:
                continue
            k = n.get("k")
            if k == "Decl":
                for var in n.get("vars", []):
                    ty = f.type(var.get("t"))
                    if "std::vector" in ty:
                        init = strip(var.get("init") or {})
                        args = init.get("a", []) if init.get("k") in ("Construct", "TempObj") else []
                        z = len(args) == 0 or len(args) == 1 or (len(args) == 2 and (lambda rv: rv.get("k") in ("Int", "Float") and float(rv["v"]) == 0.0 or (rv.get("k") in ("Construct", "TempObj") and (not rv.get("a") or (len(rv["a"]) == 1 and view.value(rv["a"][0]).get("k") in ("Int", "Float") and float(view.value(rv["a"][0])["v"]) == 0.0))))(view.value(args[1])))
                        events.setdefault(e, []).append((var["d"], "clean" if z else "dirty", n))
            elif k in ("Call", "MCall"):
                nm = (n.get("callee") or n.get("n") or "").rsplit("::", 1)[-1]
                for pos, a in enumerate(n.get("a", [])):
                    arr = array_of(a)
                    if arr is None:
                        continue
                    pt = n.get("pt") or []
                    ty = f.type(pt[pos]) if pos < len(pt) else ""
                    if ty.strip().startswith("const "):
                        continue
                    if nm in ("memset", "fill", "fill_n") and pos == 0:
                        zv = view.value(n["a"][1 if nm == "memset" else 2]) if len(n.get("a", [])) == 3 else {}
                        while zv.get("k") in ("Construct", "TempObj") and len(zv.get("a", [])) == 1:
                            zv = view.value(zv["a"][0])
                        zero = (zv.get("k") in ("Int", "Float") and float(zv["v"]) == 0.0) or (zv.get("k") in ("Construct", "TempObj", "ValueInit") and not zv.get("a"))
                        events.setdefault(e, []).append((arr, "clean" if zero else "dirty", n))
                        continue
                    cal = inl.bydecl.get(n.get("cdecl"))
                    if zeroing_param(cal, pos):
                        events.setdefault(e, []).append((arr, "clean", n))
                        continue
                    pp = partial_param(cal, pos) if cal is not None else None
                    if pp is True:
                        events.setdefault(e, []).append((arr, "gather", n))
                        gathers.append((e, arr, n))
                    else:
                        events.setdefault(e, []).append((arr, "dirty", n))
                if k == "MCall" and n.get("n") in ("assign",) and n.get("obj") is not None and array_of(n["obj"]) is not None:
                    av_ = view.value(n["a"][1]) if len(n.get("a", [])) == 2 else {}
                    while av_.get("k") in ("Construct", "TempObj") and len(av_.get("a", [])) == 1:
                        av_ = view.value(av_["a"][0])
                    z_ = (av_.get("k") in ("Int", "Float") and float(av_["v"]) == 0.0) or (av_.get("k") in ("Construct", "TempObj", "ValueInit") and not av_.get("a"))
                    events.setdefault(e, []).append((array_of(n["obj"]), "clean" if z_ else "dirty", n))
                if k == "MCall" and n.get("n") == "resize" and n.get("obj") is not None and array_of(n["obj"]) is not None and len(n.get("a", [])) == 2:
                    av_ = view.value(n["a"][1])
                    while av_.get("k") in ("Construct", "TempObj") and len(av_.get("a", [])) == 1:
                        av_ = view.value(av_["a"][0])
                    if not ((av_.get("k") in ("Int", "Float") and float(av_["v"]) == 0.0) or (av_.get("k") in ("Construct", "TempObj", "ValueInit") and not av_.get("a"))):
                        events.setdefault(e, []).append((array_of(n["obj"]), "dirty", n))       # resize(n) / resize(n, 0) keep a clean array clean
            elif k == "Assign" and strip(n["lhs"]).get("k") in ("Index", "OpCall"):
                t = strip(n["lhs"])
                b2 = t["b"] if t.get("k") == "Index" else t["a"][0]
                arr = array_of(b2)
                if arr is not None and e not in zero_ids.get(arr, ()):
                    events.setdefault(e, []).append((arr, "dirty", n))
    if not gathers:
        ck.incomplete(rule, "%s: no call of a gather routine (a callee that stores into a work array only under a pattern match) found" % inst)
        return
    # forward may-dirty dataflow
    arrs = sorted({a for e, a, n in gathers})
    state_in = {view.cfg.entry: {a: False for a in arrs}}       # dirty?
    at_gather = {}
    work = [view.cfg.entry]
    while work:
        b = work.pop()
        st = dict(state_in[b])
        for e in view.cfg.blocks[b]["el"]:
            for arr, what, n in events.get(e, []):
                if arr not in st:
                    continue
                if what == "gather":
                    at_gather[e] = at_gather.get(e, False) or st[arr]
                    st[arr] = True
                else:
                    st[arr] = (what == "dirty")
        for s2 in view.succ(b):
            old = state_in.get(s2)
            new = {a: (st[a] or (old or {}).get(a, False)) for a in arrs}
            if old is None or new != old:
                state_in[s2] = new
                work.append(s2)
    seen = {}
    for e, arr, n in gathers:
        nm = view.locals[arr]["n"]
        key = "%s/%s" % (inst, nm)
        seen[key] = seen.get(key, 0) + 1
        if seen[key] > 1:
            key += "#%d" % seen[key]
        dirty = at_gather.get(e, False)
        ck.ob(rule, key, not dirty,
              "the work array %s is zero-initialised and re-zeroed on every path between two calls of %s (which writes the structural non-zeros only)" % (nm, n.get("callee", "").rsplit("::", 1)[-1]) if not dirty else
              "%s (line %s) fills %s only at the structural non-zeros, but a path reaches it on which %s still holds the data of an earlier step (e.g. from a previous iteration that left the loop body early, by-passing the loop that re-zeroes the array): "
              "the next local matrix is assembled from stale entries" % (n.get("callee", "").rsplit("::", 1)[-1], n.get("l"), nm, nm), f.file, n.get("l"))


# -------------------------------------------------------------------------------------------------
# operator data handed to the constructor is captured by reference (or refreshed by init_numeric)
# -------------------------------------------------------------------------------------------------

def check_capture(ck, S, ctors, fl, inst):
    """E8.captured-by-reference: a member that a constructor initialises from a constructor parameter of reference-to-object
    type (system matrix, diagonal vector, filter) denotes the caller's object itself (the initialiser is the parameter: a
    reference member), so that every later change of that object is seen by the next apply().  A member initialised with a
    value *computed* from the parameter (clone, convert, copy) is a snapshot; that is admissible only if init_numeric()
    rewrites the member on every path (then the documented re-initialisation refreshes it)."""
    rule = "E8.captured-by-reference"
    seen = {}
    for c in ctors:
        cv = FnView(c)
        pref = {p_["d"]: p_ for p_ in c.params if ("&" in c.type(p_["t"]) or "*" in c.type(p_["t"])) and not re.search(r"\b(String|PropertyMap|basic_string)\b", c.type(p_["t"]))}
        for ini in c.d.get("inits") or []:
            mem = ini.get("member")
            init = ini.get("init")
            if not mem or init is None:
                continue
            refs = [x for x in walk(init) if x.get("k") == "Ref" and x.get("d") in pref]
            if not refs:
                continue
            iv_ = strip(init)
            while iv_.get("k") == "Un" and iv_.get("op") in ("*", "&"):
                iv_ = strip(iv_["e"])          # reference member bound to *ptr, pointer member set to &ref
            direct = iv_.get("k") == "Ref" and iv_.get("d") in pref
            st = seen.setdefault(mem, {"direct": True, "where": ini.get("l"), "param": refs[0]["n"], "how": render(init)[:70], "file": c.file})
            if not direct:
                st["direct"] = False
                st["where"] = ini.get("l")
                st["how"] = render(init)[:70]
    for mem, st in sorted(seen.items()):
        key = "%s/%s" % (inst, mem)
        if st["direct"]:
            ck.ob(rule, key, True, "%s is bound to the constructor argument `%s` itself" % (mem, st["param"]), st["file"], st["where"])
            continue
        # a snapshot: does init_numeric() rewrite it on every path?
        ok = False
        if "init_numeric" in fl:
            nf = fl["init_numeric"]
            nv = S.view(nf)
            writes = set()
            for e in stmts_of(nv):
                n = nv.byid.get(e)
                if n is None:
                    continue
                tgt = None
                if n.get("k") == "Assign" and n.get("op") == "=":
                    tgt = n["lhs"]
                elif n.get("k") == "OpCall" and n.get("op") == "=" and len(n.get("a", [])) == 2:
                    tgt = n["a"][0]
                elif n.get("k") == "MCall" and n.get("n") in ("clone", "convert", "copy") and not n.get("cconst") and n.get("a"):
                    tgt = n.get("obj")
                if tgt is not None and pcsym.this_field(nv.value(tgt)) == mem:
                    writes.add(e)
            ok = bool(writes) and not nv.flow_from(None, stop=writes | empty_shortcut_returns(nv))[1]
        ck.ob(rule, key, ok,
              "%s is a snapshot of the constructor argument `%s` (%s) that init_numeric() rewrites on every path" % (mem, st["param"], st["how"]) if ok else
              "%s is initialised with `%s`, a snapshot of the constructor argument `%s`, and no init_numeric() rewrites it: when the owner replaces that object's data (assignment, clone, convert, re-creation) "
              "the preconditioner keeps applying the old values, also after done/init" % (mem, st["how"], st["param"]), st["file"], st["where"])


# -------------------------------------------------------------------------------------------------
# wrappers
# -------------------------------------------------------------------------------------------------

def check_wrapper(ck, fns, inst):
    rule = "E7.wrapper-delegates"
    for name, f in sorted(fns.items()):
        if name in (tmpl(f.cls), "~" + tmpl(f.cls), "name") or f.d.get("ctor") or f.d.get("dtor"):
            continue
        view = FnView(f)
        calls = []
        for e in stmts_of(view):
            n = view.byid.get(e)
            if n and n.get("k") == "MCall" and n.get("obj") is not None:
                o = view.value(n["obj"])
                if o.get("k") == "OpCall" and o.get("op") in ("->", "*") and pcsym.this_field(view.value(o["a"][0])) == "_impl":
                    calls.append((e, n))
                elif o.get("k") == "MCall" and o.get("n") == "get" and pcsym.this_field(view.value(o.get("obj") or {})) == "_impl":
                    calls.append((e, n))
        if not calls:
            mentions = any(pcsym.this_field(x) == "_impl" for x in walk(f.body) if x.get("k") == "Member")
            others = [n2.get("n") for n2 in walk(f.body) if n2.get("k") == "MCall" and (n2.get("obj") is None or strip(n2.get("obj")).get("k") == "This")]
            if mentions or others:
                ck.incomplete(rule, "%s::%s: no direct call on _impl found; the implementation object is used through a construct that is not modelled (%s)" % (
                    inst, name, "member call " + others[0] if others else "_impl referenced otherwise"))
            else:
                ck.ob(rule, "%s::%s" % (inst, name), False, "does not forward to the implementation object (it is never used)", f.file, f.line)
            continue
        problems = []
        # const queries of the implementation object (name(), get_omega() in an assertion or a log line) are not forwarding calls
        calls = [(e, n) for e, n in calls if n.get("n") == name or not n.get("cconst")]
        if not calls:
            ck.ob(rule, "%s::%s" % (inst, name), False, "does not forward to the implementation object (only const queries of it)", f.file, f.line)
            continue
        for e, n in calls:
            if n.get("n") != name:
                problems.append("forwards to _impl->%s" % n.get("n"))
            args = [view.value(a) for a in n.get("a", [])]
            if any(a.get("k") != "Ref" for a in args):
                ck.incomplete(rule, "%s::%s: forwarded arguments %s are not plain parameters" % (inst, name, ", ".join(render(a) for a in args)))
                problems = None
                break
            if [a.get("d") for a in args] != [p["d"] for p in f.params]:
                problems.append("arguments %s are not the parameters in order" % ", ".join(render(a) for a in args))
        if problems is None:
            continue
        _, esc = view.flow_from(None, stop={e for e, n in calls})
        if esc:
            problems.append("a normal exit skips the forwarding call")
        ck.ob(rule, "%s::%s" % (inst, name), not problems, "; ".join(problems) if problems else "forwards to _impl->%s(%s)" % (name, ", ".join(p["n"] for p in f.params)),
              f.file, f.line)


# -------------------------------------------------------------------------------------------------
# factories
# -------------------------------------------------------------------------------------------------

def check_factories(ck):
    rule = "E0.factory-instantiable"
    tu = os.path.join(featlib.VERIF, "tu", "c08_factories.cpp")
    lines = open(tu).read().splitlines()
    tags = {}
    for i, ln in enumerate(lines, 1):
        m = re.search(r"//\s*@factory\s+(.*)$", ln)
        if m:
            tags[i] = m.group(1).strip()
    errs = featlib.syntax_check(tu)
    hit = {}
    for e in errs:
        where = [(n["file"], n["line"]) for n in e["notes"]] + [(e["file"], e["line"])]
        drv = [l for fl, l in where if fl.endswith("c08_factories.cpp")]
        repo = [(fl, l) for fl, l in where if fl.startswith(featlib.REPO + "/")]
        if not drv:
            ck.incomplete(rule, "front-end error not attributable to a factory call: %s:%d %s" % (e["file"], e["line"], e["msg"][:200]))
            continue
        if drv[-1] not in tags:
            ck.incomplete(rule, "driver tu/c08_factories.cpp:%d does not compile: %s" % (drv[-1], e["msg"][:200]))
            continue
        hit.setdefault(drv[-1], []).append((e, repo))
    for ln, tag in sorted(tags.items()):
        es = hit.get(ln, [])
        if es:
            e, repo = es[0]
            loc = "%s:%d" % (rel(repo[0][0]), repo[0][1]) if repo else "%s:%d" % (e["file"], e["line"])
            ck.ob(rule, tag, False, "documented factory overload does not instantiate: %s (at %s)" % (e["msg"][:220], loc),
                  repo[0][0] if repo else None, repo[0][1] if repo else None)
        else:
            ck.ob(rule, tag, True, "type-checks", None, None)


def check_case_exclusive(ck):
    """E13.case-exclusive: every case of the UzawaType switch in UzawaPrecond::apply() performs its own block solve only:
    control does not fall from a non-empty case into the next one"""
    rule = "E13.case-exclusive"
    facts = featlib.extract("tu/c08_uzawa.cpp", files=featlib.repo_path(SOLVER) + "uzawa_precond.hpp", patterns=True)
    ck.tu(facts)
    for e in (facts.errors_in_repo() + facts.errors_outside_repo())[:3]:
        ck.incomplete(rule, "tu/c08_uzawa.cpp does not compile: %s:%d %s" % (e["file"], e["line"], e["msg"][:200]))
    n_sw = 0
    seen = {}
    for f in facts.functions:
        if f.body is None or not re.match(r"FEAT::Solver::UzawaPrecond", f.cls or ""):
            continue
        sws = [n for n in walk(f.body) if n.get("k") == "Switch"]
        if not sws:
            continue
        fts = norm_c08.switch_fallthroughs(f.body)
        variant = "global" if "Global::Matrix" in f.cls else "local"
        for sw in sws:
            sel = render(strip(sw.get("c") or {}))
            key = "UzawaPrecond[%s]::%s/switch(%s)" % (variant, f.name, sel)
            seen[key] = seen.get(key, 0) + 1
            if seen[key] > 1:
                continue        # the same template seen as pattern and as instantiation
            n_sw += 1
            mine = [(a, b) for s_, a, b in fts if s_ is sw]
            lab = lambda c: render(strip(c.get("v") or {})) if c.get("k") == "Case" else "default"
            ck.ob(rule, key, not mine,
                  "every non-empty case ends in break / return" if not mine else
                  "; ".join("`case %s` (line %s) falls through into `case %s` (line %s): for %s the block solves of both cases are executed, the second overwriting the result of the first" % (
                      lab(a), a.get("l"), lab(b), b.get("l"), lab(a)) for a, b in mine), f.file, (mine[0][0] if mine else sw).get("l"))
    if not n_sw:
        ck.incomplete(rule, "no switch found in UzawaPrecond::apply (kernel/solver/uzawa_precond.hpp)")


STATUS_OK = ("success", "max_iter", "stagnated")      # status_success() of kernel/solver/base.hpp


ABS_NAMES = ("abs", "fabs", "cuda_abs")


def check_extremum_measure(ck):
    """E4.extremum-measure: a running-extremum search `ext = <init>; loop { if(cand > ext) { ext = cand; ... } }` measures the
    initial value, the compared candidate and the stored value in the same way: all |a[..]| or all a[..] of one array.  Found
    structurally (any local variable that an if-statement compares with a candidate and then assigns that candidate to)."""
    rule = "E4.extremum-measure"
    facts = featlib.extract("tu/c08_math_invert.cpp", files=featlib.repo_path("kernel/util/math.hpp"))
    ck.tu(facts)
    for e in (facts.errors_in_repo() + facts.errors_outside_repo())[:3]:
        ck.incomplete(rule, "driver TU tu/c08_math_invert.cpp does not compile: %s:%d %s" % (e["file"], e["line"], e["msg"][:200]))
    fns = [f for f in facts.functions if f.tk != "pattern" and f.name == "invert_matrix" and f.body is not None]
    if not fns:
        ck.incomplete(rule, "no instantiation of Math::invert_matrix found")
    # ... and the helpers it calls (the pivot search may live in a function of its own)
    bydecl = {}
    for g in facts.functions:
        if g.tk != "pattern" and g.body is not None and g.d.get("decl") is not None:
            bydecl.setdefault(g.d["decl"], g)
    closure, work = list(fns), [(f, 0) for f in fns]
    while work:
        g, dep = work.pop()
        if dep >= 3:
            continue
        for n in walk(g.body):
            if n.get("k") in ("Call", "MCall") and n.get("cdecl") in bydecl:
                h = bydecl[n["cdecl"]]
                if all(h is not x for x in closure) and (h.name or "").rsplit("::", 1)[-1] not in ABS_NAMES:
                    closure.append(h)
                    work.append((h, dep + 1))
    total = 0
    for f in closure:
        view = FnView(f)

        def measure(e):
            """('abs', array decl) | ('raw', array decl) | ('const',) | None (something else: no claim)"""
            v = view.value(e)
            kind = "raw"
            if v.get("k") in ("Call", "MCall") and (v.get("callee") or v.get("n") or "").rsplit("::", 1)[-1] in ABS_NAMES and len(v.get("a", [])) == 1:
                kind = "abs"
                v = view.value(v["a"][0])
            if v.get("k") in ("Int", "Float") or (v.get("k") == "Un" and v.get("op") == "-" and view.value(v["e"]).get("k") in ("Int", "Float")):
                return ("const",)
            if v.get("k") == "Index":
                b = view.value(v["b"])
                if b.get("k") == "Ref":
                    return (kind, b["d"])
            if v.get("k") == "OpCall" and v.get("op") == "[]" and v.get("a"):
                b = view.value(v["a"][0])
                if b.get("k") in ("Ref", "Member"):
                    return (kind, b.get("d"))
            return None

        def same(a_, b_):
            a_, b_ = strip(a_), strip(b_)
            if a_.get("k") == "Ref" and b_.get("k") == "Ref":
                return a_.get("d") == b_.get("d")
            return render(view.value(a_)) == render(view.value(b_))
        found = 0
        for n in walk(f.body):
            if n.get("k") != "If":
                continue
            c = strip(n["c"])
            if c.get("k") != "Bin" or c.get("op") not in ("<", ">", "<=", ">="):
                continue
            th = n.get("then") or {}
            stm = th.get("s", []) if th.get("k") == "Block" else [th]
            for lhs_c, rhs_c in ((c["lhs"], c["rhs"]), (c["rhs"], c["lhs"])):
                x = strip(lhs_c)
                if x.get("k") != "Ref" or x.get("dk") != "local" or x["d"] not in view.locals:
                    continue
                upd = [a_ for a_ in stm if a_.get("k") == "Assign" and a_.get("op") == "=" and strip(a_["lhs"]).get("k") == "Ref" and strip(a_["lhs"])["d"] == x["d"]]
                if len(upd) != 1:
                    continue
                my = None
                if not same(upd[0]["rhs"], rhs_c):
                    my, mc0 = measure(upd[0]["rhs"]), measure(rhs_c)
                    if my is None or mc0 is None or len(my) < 2 or my[1:] != mc0[1:]:
                        continue        # the stored value is not an entry of the array the candidates come from: another idiom
                init = view.locals[x["d"]].get("init")
                if init is None:
                    continue
                mi, mc = measure(init), measure(rhs_c)
                if mi is None or mc is None or mc == ("const",):
                    continue
                found += 1
                ok = mi == ("const",) or mi == mc
                mixed = not ok and mi[1:] == mc[1:]
                if ok and my is not None and my != mc:
                    ck.ob(rule, "%s/%s" % (f.qn, x.get("n")), False,
                          "running extremum %s: the candidate is compared as `%s` but stored as `%s` (%s against %s value of the same array)" % (
                              x.get("n"), render(view.value(rhs_c))[:60], render(upd[0]["rhs"])[:60], {"abs": "absolute", "raw": "signed"}[mc[0]], {"abs": "absolute", "raw": "signed"}[my[0]]),
                          f.file, upd[0].get("l"))
                    continue
                if not ok and not mixed:
                    continue        # values of different arrays: not an extremum over one family, no claim
                ck.ob(rule, "%s/%s" % (f.qn, x.get("n")), ok,
                      "running extremum %s: initial value `%s` and candidates `%s` are %s" % (
                          x.get("n"), render(init)[:60], render(view.value(rhs_c))[:60],
                          "measured alike" if ok else "measured differently (%s value against %s value of the same array): a negative entry loses against every candidate, even an exact zero" % (
                              {"abs": "absolute", "raw": "signed"}[mi[0]], {"abs": "absolute", "raw": "signed"}[mc[0]])),
                      f.file, n.get("l"))
        total += found
    if fns and not total:
        ck.incomplete(rule, "%s: no running-extremum search (if(cand > ext) ext = cand) recognised in it or in the functions it calls" % fns[0].qn)


def check_status_filter(ck):
    """E7.status-filter (SchwarzPrecond<Global::Vector, Global::Filter>::apply): on every path on which the returned status
    may satisfy status_success(), the correction was synchronised (sync_1) and filter_cor-ed.  The returned status variable is
    followed over the CFG with the abstract values {success, other-ok (max_iter / stagnated), failure}; assignments of
    enumerators / ternaries of enumerators, tests `status == Status::X`, `status != X` and `status_success(status)` refine it."""
    rule = "E7.status-filter"
    facts = featlib.extract("tu/c08_schwarz.cpp", files=featlib.repo_path(SOLVER) + "schwarz_precond.hpp")
    ck.tu(facts)
    for e in (facts.errors_in_repo() + facts.errors_outside_repo())[:3]:
        ck.incomplete(rule, "driver TU tu/c08_schwarz.cpp does not compile: %s:%d %s" % (e["file"], e["line"], e["msg"][:200]))
    inl = norm_c08.Inliner(facts)
    aps = [f for f in facts.functions if f.tk != "pattern" and f.name == "apply" and re.match(r"FEAT::Solver::SchwarzPrecond<", f.cls) and len(f.params) == 2]
    if not aps:
        ck.incomplete(rule, "no instantiation of SchwarzPrecond::apply found")
    ALL = frozenset(("success", "ok2", "fail"))

    def cls_of(view, n):
        """abstract value set of a status-typed expression"""
        n = view.value(n)
        if n.get("k") == "Ref" and n.get("dk") == "enum":
            nm = (n.get("qn") or n.get("n") or "").rsplit("::", 1)[-1]
            return frozenset(["success"]) if nm == "success" else (frozenset(["ok2"]) if nm in STATUS_OK else frozenset(["fail"]))
        if n.get("k") == "Cond":
            return cls_of(view, n["then"]) | cls_of(view, n["else"])
        return ALL
    for f0 in aps:
        f = inl.inline(f0, want=lambda call, cal: cal.name not in ANCHORED)
        view = FnView(f)
        inst = "SchwarzPrecond<Global::Vector>"
        out_d = alias_set(view, f.params[0]["d"])
        rets = [n for n in walk(f.body) if n.get("k") == "Return" and n.get("e") is not None]
        svars = {view.value(r["e"]).get("d") for r in rets if view.value(r["e"]).get("k") == "Ref" and view.value(r["e"]).get("dk") == "local"}
        if len(svars) != 1 or None in svars or any(not (view.value(r["e"]).get("k") == "Ref") for r in rets):
            ck.incomplete(rule, "%s: apply() does not return one local status variable" % inst)
            continue
        sd = svars.pop()

        def is_s(n):
            n = strip(n)
            return n.get("k") == "Ref" and n.get("d") == sd

        def refine(atom, truth, vals):
            a = strip(atom)
            while a.get("k") == "Un" and a.get("op") == "!":
                truth = not truth
                a = strip(a["e"])
            if a.get("k") == "Bin" and a.get("op") in ("==", "!="):
                for x, y in ((a["lhs"], a["rhs"]), (a["rhs"], a["lhs"])):
                    if is_s(x):
                        c = cls_of(view, y)
                        if len(c) == 1:
                            eq = (a["op"] == "==") == truth
                            only = next(iter(c))
                            if eq:
                                return vals & c
                            # != X excludes X only if the class is a single enumerator (success); ok2 / fail are several
                            return vals - c if only == "success" else vals
            if a.get("k") == "Call" and (a.get("callee") or "").endswith("status_success") and a.get("a") and is_s(a["a"][0]):
                return vals & (frozenset(["success", "ok2"]) if truth else frozenset(["fail"]))
            return vals

        def assumed(atom):
            """conditions the rule assumes: a Global::Vector has a communicator (get_comm() != nullptr)"""
            a = strip(atom)
            neg = False
            while a.get("k") == "Un" and a.get("op") == "!":
                neg = not neg
                a = strip(a["e"])
            if a.get("k") == "Bin" and a.get("op") in ("!=", "=="):
                for x, y in ((a["lhs"], a["rhs"]), (a["rhs"], a["lhs"])):
                    xv = view.value(x)
                    if strip(y).get("k") == "Null" and xv.get("k") == "MCall" and xv.get("n") == "get_comm":
                        return (a["op"] == "!=") != neg
            return None
        cfg = view.cfg
        work = [(cfg.entry, ALL, False, False)]
        seen = set()
        bad = None
        unknown = None
        normal = set(cfg.normal_exit_preds())
        while work:
            b, vals, synced, filtered = work.pop()
            if (b, vals, synced, filtered) in seen or not vals:
                continue
            seen.add((b, vals, synced, filtered))
            blk = cfg.blocks[b]
            for e in blk["el"]:
                n = view.byid.get(e)
                if n is None:
                    continue
                k = n.get("k")
                if k == "Decl":
                    for var in n.get("vars", []):
                        if var.get("d") == sd:
                            vals = cls_of(view, var["init"]) if var.get("init") is not None else ALL
                elif k == "Assign" and is_s(n["lhs"]):
                    vals = cls_of(view, n["rhs"]) if n.get("op") == "=" else ALL
                elif k == "MCall" and n.get("n") == "sync_1" and strip(n.get("obj") or {}).get("d") in out_d:
                    synced = True
                elif k == "MCall" and n.get("n") == "filter_cor" and pcsym.this_field(view.value(n.get("obj") or {})) == "_filter" and n.get("a") and strip(n["a"][0]).get("d") in out_d:
                    filtered = True
                elif k in ("MCall", "Call") and not (n.get("callee") or "").startswith("std::") and any(
                        strip(a).get("k") == "Ref" and strip(a).get("d") == sd and "&" in f.type((n.get("pt") or [0] * 9)[i_]) and "&&" not in f.type((n.get("pt") or [0] * 9)[i_])
                        and not f.type((n.get("pt") or [0] * 9)[i_]).strip().startswith("const ") for i_, a in enumerate(n.get("a", [])) if i_ < len(n.get("pt") or [])):
                    vals = ALL      # the status variable is handed to a repo function by non-const reference
                elif k in ("MCall", "Call") and (n.get("obj") is None or strip(n.get("obj") or {}).get("k") == "This") and k == "MCall" and not n.get("cconst") and n.get("n") not in ("name",):
                    unknown = "call of the member function %s() (line %s)" % (n.get("n"), n.get("l"))
            if blk.get("noreturn"):
                continue
            succ = view.raw_succ(b)
            atom = view.branch_atom(b) if len(succ) == 2 and blk.get("cond") is not None and blk.get("term") != "SwitchStmt" else None
            for idx, t in enumerate(succ):
                if t is None:
                    continue
                v2 = vals
                if atom is not None:
                    asm = assumed(atom)
                    if asm is not None and asm != (idx == 0):
                        continue
                    v2 = refine(atom, idx == 0, vals)
                if t == cfg.exit:
                    if b in normal and (v2 & frozenset(["success", "ok2"])) and not (synced and filtered) and bad is None:
                        bad = (v2, synced, filtered)
                    continue
                work.append((t, v2, synced, filtered))
        if bad is None and unknown:
            ck.incomplete(rule, "%s: %s, whose effect on the status / the correction is not modelled" % (inst, unknown))
            continue
        if bad is not None and unknown:
            ck.incomplete(rule, "%s: a path returns a successful status without sync_1 + filter_cor, but apply() contains the %s, which is not modelled" % (inst, unknown))
            continue
        ck.ob(rule, inst, bad is None,
              "every path that can return success / max_iter / stagnated has synchronised (sync_1) and filter_cor-ed the correction" if bad is None else
              "apply() can return a status for which status_success() holds (%s) on a path that skipped %s: the caller takes the correction as valid, but it is %s" % (
                  ", ".join(sorted({"success": "success", "ok2": "max_iter / stagnated"}.get(x, x) for x in bad[0] if x != "fail")),
                  " and ".join(w for w, done_ in (("sync_1()", bad[1]), ("filter_cor()", bad[2])) if not done_),
                  "the unsynchronised, unfiltered local correction"), f.file, f.line)


def check_factory_forwarding(ck):
    """E1.factory-forwards: every documented new_*_precond factory uses each of its parameters and hands it to the constructor
    parameter of its own name"""
    rule = "E1.factory-forwards"
    files = featlib.repo_path(SOLVER) + "(" + "|".join(PC_FILES) + ")"
    facts = featlib.extract("tu/c08_factories.cpp", files=files)
    ck.tu(facts)
    inl = norm_c08.Inliner(facts)
    ctors_all = [g for g in facts.functions if g.tk != "pattern" and g.d.get("ctor")]
    facs = [f for f in facts.functions if f.tk != "pattern" and f.name.startswith("new_") and f.name.endswith("_precond") and not f.cls]
    if not facs:
        ck.incomplete(rule, "no instantiated new_*_precond factory found in tu/c08_factories.cpp")
    seen = {}
    for f in sorted(facs, key=lambda f: (f.name, len(f.params), f.line)):
        m = re.match(r"std::shared_ptr<(?:FEAT::Solver::)?(\w+)<", f.type(f.d.get("ret")) or "")
        key = "%s/%s" % (f.name, ",".join(p_["n"] for p_ in f.params))
        if key in seen:
            continue
        seen[key] = True
        if not m:
            ck.incomplete(rule, "%s: product type %s not recognised" % (key, f.type(f.d.get("ret"))))
            continue
        ctors = [g for g in ctors_all if tmpl(g.cls) == m.group(1)]
        view = FnView(inl.inline(f))
        problems, desc = norm_c08.factory_forwarding(view, ctors)
        unknown = [t for k, t in problems if k == "unknown"]
        definite = [t for k, t in problems if k != "unknown"]
        if unknown and not definite:
            ck.incomplete(rule, "%s: %s" % (key, unknown[0]))
            continue
        ck.ob(rule, key, not definite, "; ".join(definite) if definite else "every parameter is forwarded: %s" % desc, f.file, f.line)


# -------------------------------------------------------------------------------------------------

def run(tier):
    ck = Check("C08", tier)
    ck.rule("E0.factory-instantiable", "every documented new_*_precond factory overload (direct and PropertyMap based) can be instantiated for CSR/BCSR double matrices; an overload that does not compile cannot apply any operator", 14)
    ck.rule("E7.status-filter", "SchwarzPrecond<Global::Vector, Global::Filter>::apply(): on every path on which the returned status may be one for which status_success() holds (success, max_iter, stagnated) the correction was synchronised (sync_1) and passed through _filter.filter_cor(); decided by following the returned status variable over the CFG with the values {success, max_iter/stagnated, failure} (assignments of enumerators and ternaries, tests == / != / status_success refine it); assumes the vector has a communicator; breaks when the local solver stops with max_iter / stagnated: callers accept the status, the correction is the unsynchronised, unfiltered local one", 1)
    ck.rule("E13.case-exclusive", "UzawaPrecond::apply() (local and global variant): each case of the switch over the Uzawa type (diagonal / lower / upper / full) performs its own documented sequence of block solves only: control never falls from a non-empty case into the next label (decided on the statement structure of the class templates as written); breaks for the type whose case lost its break: the next case's solves overwrite pressure and velocity", 2)
    ck.rule("E4.extremum-measure", "Math::invert_matrix (behind Tiny::Matrix::set_inverse for block sizes >= 7: diagonal blocks of blocked SOR / SSOR / ILU): the pivot search — a local running extremum that an if-statement compares with a candidate and then overwrites with it — takes its initial value, the compared candidates and the stored value in the same measure (all |a[..]| of one array, or a constant start value); breaks for a block whose current diagonal entry is negative while the other candidates vanish (pivot on ~0: garbage or NaN inverse of a regular block)", 1)
    ck.rule("E1.factory-forwards", "every documented new_*_precond factory uses each of its parameters (matrix, filter, omega, fill level, degree, section) and hands it, positionally, to the constructor parameter of its own name: a dropped argument is silently replaced by the constructor's default (e.g. omega = 1), two same-typed arguments in exchanged slots configure the wrong quantity; breaks for every non-default value of the dropped / misplaced parameter", 14)
    ck.rule("E2.sweep-triangular", "SOR/SSOR row sweeps: forward loop runs over row_ptr[i].. while col_ind[k] < i, backward over ..row_ptr[i+1]-1 while col_ind[k] > i, accumulates val[k]*out[col_ind[k]] (output read only at rows already updated in this sweep), divides by val[] at the stopping position (the diagonal), writes out[i] once; breaks for every matrix with off-diagonal entries (e.g. '>=' adds the diagonal term and runs past it)", 6)
    ck.rule("E6.sweep-form", "row update of each sweep as an algebraic normal form: SOR out_i = w D^-1 (b_i - S), SSOR forward out_i = D^-1 (b_i - w S), backward out_i -= w D^-1 S (block versions with the inverse applied from the left); SOR has one forward sweep, SSOR forward then backward; breaks for every omega != 1", 10)
    ck.rule("E6.omega-scale", "the sweep result is scaled by omega*(2-omega) exactly once in SSOR and not at all in SOR; breaks for every omega != 1", 4)
    ck.rule("E2.ilu-solve", "ILU solves: solve_il ascends over the rows using (_row_ptr_l,_col_idx_l,_data_l) with x_i = b_i - sum L_ij x_j, solve_du descends using the u-family and _data_d with x_i = D_ii^-1 (b_i - sum U_ij x_j); breaks for every matrix with off-diagonal entries", 4)
    ck.rule("E8.ilu-init-order", "ILU: init_symbolic = set_struct -> factorize_symbolic -> alloc_data, init_numeric = copy_data -> factorize_numeric_il_du, apply = solve_il -> solve_du, each on every path in this order; breaks after every matrix value update / for every input", 10)
    ck.rule("E7.filter-follows", "every normal exit of apply() is preceded by _filter.filter_cor(out) and out is not modified afterwards; breaks for any filter that is not the identity", 15)
    ck.rule("E7.output-defined", "on every path the first use of the output vector defines it from the input (copy, scale, component_product, matrix apply, solve_il); breaks when the caller's vector holds old data", 15)
    ck.rule("E7.input-const", "the input vector is taken by const reference, never cast, and element pointers to it are pointers to const", 15)
    ck.rule("E7.wrapper-delegates", "SORPrecond / SSORPrecond / ILUPrecond forward apply, init_symbolic, done_symbolic, init_numeric, set_omega / set_fill_in_param to the same operation of the back-end object with the same arguments on every path", 26)
    ck.rule("E8.numeric-refresh", "every member that apply() reads and that is computed from matrix values (Jacobi/Polynomial _inv_diag, ILU _data_l/_data_u/_data_d) is rewritten from the current matrix values on every path through init_numeric(); breaks when the matrix values change between two init_numeric calls", 19)
    ck.rule("E8.refresh-covers", "ILU copy_data_csr / copy_data_bcsr (the fresh value write of E8.numeric-refresh) assigns every slot of the factor arrays on every path of the row loop: _data_l[j] and _data_u[j] for every j of the factor's row segment [row_ptr[i], row_ptr[i+1]) in both the 'found in A' and the 'not in A' branch, _data_d[i] unconditionally; breaks for fill level p >= 1 on the second init_numeric (stale fill-in)", 6)
    ck.rule("E6.ilu-factor-form", "in-place (I+L)(D+U) factorisation, scalar and blocked: every store has one of the forms L_ij <- L_ij * D_jj^-1 (right multiplication), X <- X - L_ij * U_jk (X in L, D, U; L left of U), D_ii <- D_ii^-1, as (non-commutative, for blocks) normal forms; breaks for every block matrix whose blocks do not commute", 10)
    ck.rule("E4.ilu-level-fold", "ILU(p) level of fill lev(i,k) = min_j lev(i,j) + lev(j,k) + 1: _insert folds a duplicate insertion with MIN on every path where the entry exists (neither keep-first nor overwrite) and stores (col, level) for a new entry; factorize_symbolic passes lev(L_ij) + lev(U_jk) + 1 of the two merged entries with the column of the same U entry, inserts iff level <= p, and starts the pattern of A at level 0; breaks for p >= 2 on patterns where an entry is reached through two paths of different level (pattern too small: LU does not match A on the level-p pattern)", 7)
    ck.rule("E3.merge-cursor", "numeric ILU factorisation (scalar and blocked): every cursor into a sorted column-index row (k over U_j, pl over L_i, pu over U_i) advances either as the increment of a loop over / skipping entries, or in straight code only under a successful match col_idx[cursor] == wanted column; breaks for structurally unsymmetric patterns (U_j has an entry right of column i but none at i: that entry is skipped and its Schur update lost); a cursor that skips up to a target taken from another traversal is (re)positioned inside the loop in which that traversal restarts (breaks for patterns with triangles / ILU(p>0)); a cursor positioned at row_ptr_X[r] is bounded by row_ptr_X[r+1] of the same row pointer array in every test (a hoisted row end taken from the wrong row / factor silently empties or overruns the row segment)", 24)
    ck.rule("E8.partial-fill-reinit", "a vector member that apply() reads and that a function reached from init_numeric() fills only partially (a pointer into it is handed to a gather routine all of whose stores are control-dependent on a match test) is re-initialised over its whole extent (memset / std::fill / assign / full loop over size()) on every path before, in that function or in init_numeric before the call; breaks on every second init_numeric() on one object (Vanka local matrices: the zero blocks hold the previous inverse)", 4)
    ck.rule("E8.captured-by-reference", "every member of a preconditioner that a constructor initialises from a constructor parameter of reference-to-object type (system matrix, diagonal / scaling vector, filter) is bound to that argument itself (a reference member), so that the next apply() / init_numeric() sees the caller's current object; a member initialised with a value computed from the argument (clone in any mode, convert, copy) is a snapshot and admissible only if init_numeric() rewrites it on every path; breaks when the owner replaces the object's data between two applications (assignment of a recomputed vector, clone, convert): the shallow copy keeps the old array alive", 28)
    ck.rule("E8.scratch-reset", "AmaVanka::init_numeric: the local-matrix work array, which is shared by all macros and which the gather routine fills at the structural non-zeros only, is in its zeroed state at every gather: zero-initialised where it is declared and re-zeroed on every path from any other write to the next gather — including the paths that leave the macro loop body early (`continue`); breaks with skip_singular for every macro that follows a singular one and whose local matrix has structural zeros (assembled from the inf/NaN left by the failed inversion)", 2)
    ck.rule("E8.symbolic-structure-only", "init_symbolic() (transitively) does not read matrix values (val, extract_diag, apply)", 11)
    ck.rule("E5.operator-form", "apply() evaluated symbolically as a linear operator equals the documented one: Jacobi w D^-1 (omega once), Scale w, Diagonal diag, Matrix M, Polynomial start value M~^-1 def, recurrence x <- (I - M~^-1 A) x + M~^-1 def, _m iterations; breaks for omega != 1 / every input", 9)

    extra = ("-DC08_THOROUGH",) if tier == "thorough" else ()
    files = featlib.repo_path(SOLVER) + "(" + "|".join(PC_FILES) + ")"
    facts = featlib.extract("tu/c08_precond.cpp", files=files, extra=extra)
    ck.tu(facts)
    for e in (facts.errors_in_repo() + facts.errors_outside_repo())[:3]:
        ck.incomplete("E7.filter-follows", "driver TU tu/c08_precond.cpp does not compile: %s:%d %s" % (e["file"], e["line"], e["msg"][:200]))
    S = Summaries(facts)
    # private helpers that no rule anchors by name (extracted blocks, forwarding overloads) are inlined, body and CFG
    inl = norm_c08.Inliner(facts)
    BYDECL.clear()
    BYDECL.update(inl.bydecl)
    not_anchored = lambda call, cal: cal.name not in ANCHORED
    classes = {}
    for f in facts.functions:
        if f.tk == "pattern":
            continue
        classes.setdefault(f.cls, {}).setdefault(f.name, []).append(inl.inline(f, want=not_anchored))
    seen_kinds = set()
    for cls in sorted(classes):
        t = tmpl(cls)
        fl = {n: v[0] for n, v in classes[cls].items()}
        if t in WRAPPERS:
            if "apply" in fl:
                check_wrapper(ck, fl, short(cls))
            continue
        if t not in IMPL or "apply" not in fl:
            continue
        kind = IMPL[t]
        ap = fl["apply"]
        if not has_normal_exit(ap):
            ck.note("%s: apply() has no normal exit (not implemented back end) — skipped" % short(cls))
            continue
        if "PreferredBackend::cuda" in cls:
            continue
        inst = short(cls)
        seen_kinds.add(kind)
        INTERN_DEFINES[0] = False
        if kind in ("sor", "ssor"):
            if "_apply_intern" not in fl:
                ck.incomplete("E2.sweep-triangular", "%s: _apply_intern vanished" % inst)
            else:
                INTERN_DEFINES[0] = bool(check_sweeps(ck, fl["_apply_intern"], inst, kind))
                check_omega_scale(ck, ap, inst, kind)
        check_apply(ck, ap, inst, kind)
        INTERN_DEFINES[0] = False
        if kind == "ilu":
            for nm, names, what in (("init_symbolic", ["set_struct", "factorize_symbolic", "alloc_data"], "symbolic factorisation"),
                                    ("init_numeric", ["copy_data", "factorize_numeric_il_du"], "numeric factorisation of the current values"),
                                    ("apply", ["solve_il", "solve_du"], "(I+L) y = b then (D+U) x = y")):
                if nm not in fl:
                    ck.incomplete("E8.ilu-init-order", "%s: %s vanished" % (inst, nm))
                else:
                    call_sequence_rule(ck, "E8.ilu-init-order", "%s::%s" % (inst, nm), fl[nm], names, what)
            # solve operands in apply: solve_il(out, in), solve_du(out, out)
            v = FnView(ap)
            al = out_aliases(v, ap.params[0]["d"])
            for e in stmts_of(v):
                n = v.byid.get(e)
                if n and n.get("k") == "MCall" and n.get("n") in ("solve_il", "solve_du"):
                    a = [strip(x) for x in n.get("a", [])]
                    a = [x if x.get("d") in al else v.value(x) for x in a]
                    x_ok = len(a) == 2 and a[0].get("d") in al
                    if n["n"] == "solve_il":
                        src = v.value(a[1]) if len(a) == 2 else {}
                        b_ok = src.get("k") == "MCall" and src.get("n") == "elements" and v.value(src.get("obj") or {}).get("d") == ap.params[1]["d"]
                    else:
                        b_ok = len(a) == 2 and a[1].get("d") in al
                    ck.ob("E8.ilu-init-order", "%s::apply/%s operands" % (inst, n["n"]), x_ok and b_ok,
                          "%s(%s): %s" % (n["n"], ", ".join(render(x) for x in a), "solve_il reads the input and writes the output, solve_du works in place on the output"), ap.file, n.get("l"))
        if kind in ("jacobi", "polynomial", "scale", "diagonal", "matrix"):
            check_operator_form(ck, fl, inst, kind)
        check_numeric(ck, S, fl, inst, kind)
        check_capture(ck, S, [g for g in facts.functions if g.tk != "pattern" and g.cls == cls and g.d.get("ctor")], fl, inst)
    for cls in sorted(classes):
        t = tmpl(cls)
        if t in ("ILUCoreScalar", "ILUCoreBlocked"):
            fl = {n: v[0] for n, v in classes[cls].items()}
            cshort = re.sub(r"FEAT::Solver::Intern::", "", cls)
            for nm in ("solve_il", "solve_du"):
                if nm in fl:
                    check_ilu_solve(ck, fl[nm], "%s::%s" % (cshort, nm))
            cp = [n for n in ("copy_data_csr", "copy_data_bcsr") if n in fl]
            if not cp:
                ck.incomplete("E8.refresh-covers", "%s: copy_data_csr/copy_data_bcsr vanished" % cshort)
            for nm in cp:
                check_copy_covers(ck, fl[nm], "%s::%s" % (cshort, nm))
            if "factorize_numeric_il_du" in fl:
                check_factor_form(ck, fl["factorize_numeric_il_du"], "%s::factorize_numeric_il_du" % cshort, t == "ILUCoreBlocked")
                check_merge_cursor(ck, fl["factorize_numeric_il_du"], "%s::factorize_numeric_il_du" % cshort)
            else:
                ck.incomplete("E6.ilu-factor-form", "%s: factorize_numeric_il_du vanished" % cshort)
    symb = [c for c in sorted(classes) if tmpl(c) == "ILUCoreSymbolic"]
    if not symb:
        ck.incomplete("E4.ilu-level-fold", "no instantiation of ILUCoreSymbolic found")
    for cls in symb:
        check_level_fold(ck, {n: v[0] for n, v in classes[cls].items()}, re.sub(r"FEAT::Solver::Intern::", "", cls))
    for k in set(IMPL.values()) - seen_kinds:
        ck.incomplete("E7.filter-follows", "no instantiation of the %s preconditioner found" % k)
    check_factories(ck)
    check_factory_forwarding(ck)
    check_case_exclusive(ck)
    check_status_filter(ck)
    check_extremum_measure(ck)
    # Vanka: local matrices gathered into a dense array
    vfacts = featlib.extract("tu/c08_vanka.cpp", files=featlib.repo_path(SOLVER) + "vanka.hpp")
    ck.tu(vfacts)
    for e in (vfacts.errors_in_repo() + vfacts.errors_outside_repo())[:3]:
        ck.incomplete("E8.partial-fill-reinit", "driver TU tu/c08_vanka.cpp does not compile: %s:%d %s" % (e["file"], e["line"], e["msg"][:200]))
    vcls = sorted({f.cls for f in vfacts.functions if f.tk != "pattern" and re.match(r"FEAT::Solver::Vanka<", f.cls)})
    if not vcls:
        ck.incomplete("E8.partial-fill-reinit", "no instantiation of Solver::Vanka found")
    for c in vcls:
        blk = "BCSR" if "SparseMatrixBCSR" in c else "CSR"
        check_partial_fill_reinit(ck, vfacts, c, "Vanka<SaddlePointMatrix<%s>>" % blk)

    if inl.log:
        ck.note("helpers inlined into the anchored functions (body + CFG, lib/norm_c08.py): %s" % ", ".join(sorted({"%s <- %s" % (a.rsplit("::", 1)[-1], b) for a, b, l, m in inl.log})))
    # AmaVanka: the local matrix work array shared by all macros
    afacts = featlib.extract("tu/c08_amavanka.cpp", files=featlib.repo_path(SOLVER) + "(amavanka|amavanka_base).hpp", extra=extra)
    ck.tu(afacts)
    for e in (afacts.errors_in_repo() + afacts.errors_outside_repo())[:3]:
        ck.incomplete("E8.scratch-reset", "driver TU tu/c08_amavanka.cpp does not compile: %s:%d %s" % (e["file"], e["line"], e["msg"][:200]))
    ainl = norm_c08.Inliner(afacts)
    acls = sorted({f.cls for f in afacts.functions if f.tk != "pattern" and re.match(r"FEAT::Solver::AmaVanka<", f.cls)})
    if not acls:
        ck.incomplete("E8.scratch-reset", "no instantiation of Solver::AmaVanka found")
    for c in acls:
        cand = [f for f in afacts.functions if f.tk != "pattern" and f.cls == c and f.name == "init_numeric"]
        m = re.search(r"AmaVanka<FEAT::LAFEM::(\w+)<(?:FEAT::LAFEM::)?(\w+)", c)
        ainst = "AmaVanka<%s%s>::init_numeric" % (m.group(1), "<%s>" % m.group(2) if m and m.group(1) == "SaddlePointMatrix" else "<%s>" % m.group(2)) if m else c
        if len(cand) != 1:
            ck.incomplete("E8.scratch-reset", "%s: init_numeric vanished" % ainst)
            continue
        check_scratch_reset(ck, afacts, cand[0], ainst, ainl)

    ck.assume("matrices are well formed CSR/BCSR with sorted column indices and a stored non-zero diagonal entry in every row (documented requirement of SOR/SSOR/ILU)")
    ck.assume("SchwarzPrecond: a Global::Vector handed to apply() has a communicator (get_comm() != nullptr); on the gate-less path the status of the local solver is returned as is (not decided)")
    ck.assume("filter_def/filter_cor are treated as identities in the operator forms; their placement is decided by E7.filter-follows")
    return ck.finish(
        "Resolved bodies of the stationary preconditioners (Jacobi, SOR, SSOR, ILU, Polynomial, Scale, Diagonal, Matrix) instantiated over CSR and BCSR "
        "matrices by tu/c08_precond.cpp, factories by tu/c08_factories.cpp. Decided: triangular structure and algebraic row update of all SOR/SSOR/ILU sweeps "
        "(symbolic evaluation of the loop bodies, sympy normal forms, non-commutative for blocks), omega placement, correction filter on every exit, output "
        "definition, input constness, forwarding of the front classes, freshness of cached numeric members under init_numeric, structure-only init_symbolic, "
        "operator normal forms of the vector-level preconditioners. NOT decided: the ILU(p) symbolic/numeric factorisation loops (only their call order), "
        "numerical equality with dense solves, rounding, CUDA/MKL back ends, Schwarz/Uzawa/Vanka/AmaVanka.")
