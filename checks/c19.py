"""C19 — graph, permutation, colouring and ordering tools meet their definitions.

Engines E2 (index kinds) + E3 (two-pass agreement) from lib/ikinds.py on kernel/adjacency, plus a few
E7/E12/E13 rules that use the same event model.  Everything is decided on the clang facts of the
current /repo tree; no FEAT3 code is executed.
"""
import re

import featlib
from featlib import Check, render, walk, children
import ikinds
import norm_c12
from ikinds import (Contracts, FnKinds, FunctionIndex, Lin, Rng, Top, strip, _subscript, _is_incdec, _is_deref, coverage, mask_test, frames_key, elsewhere)

ADJ = featlib.repo_path("kernel/adjacency/")
SCOPE_RE = r"kernel/adjacency/(graph|permutation|coloring|cuthill_mckee|dynamic_graph)\.(hpp|cpp)$"
CLASS_RE = r"Adjacency::(Graph|Permutation|Coloring|CuthillMcKee|DynamicGraph)$"
G = r"Adjacency::Graph$"
P = r"Adjacency::Permutation$"


# -------------------------------------------------------------------------------------------------
# contracts (DESIGN appendix A.2), filled from the doxygen of graph.hpp / permutation.hpp / adjactor.hpp
# -------------------------------------------------------------------------------------------------

def graph_dom(fk, okey, call):
    """Graph::get_num_nodes_domain() is `_domain_ptr.size() - 1` of a non-empty pointer array"""
    a = fk.arrs.get(okey + "._domain_ptr")
    if a is not None and a.extent is not None and a.fresh and not a.cond:
        return a.extent - 1
    return Lin.atom("Dom(%s)" % okey)


def contracts():
    ct = Contracts()
    # adjactor interface (adjactor.hpp): image_begin/image_end take a domain node, iteration yields image nodes
    ct.size_methods = {"get_num_nodes_domain": graph_dom, "get_num_nodes_image": "Img({o})", "get_num_indices": "NZ({o})"}
    # Graph: "_domain_ptr Dimension: #_num_nodes_domain+1", "_image_idx Dimension: #_num_indices_image"
    ct.array_fields = {(G, "_domain_ptr"): (("Dom({o})", 1), ("NZ({o})", 1), True),
                       (G, "_image_idx"): ("NZ({o})", "Img({o})", False),
                       (P, "_perm_pos"): ("size({o}._perm_pos)", "size({o}._perm_pos)", False),
                       (P, "_swap_pos"): ("size({o}._swap_pos)", "size({o}._swap_pos)", False)}
    ct.own_fields = {(G, "_domain_ptr"): ("size({o}._domain_ptr)", ("NZ({o})", 1), True),
                     (G, "_image_idx"): ("size({o}._image_idx)", "Img({o})", False),
                     (P, "_perm_pos"): ("size({o}._perm_pos)", "size({o}._perm_pos)", False),
                     (P, "_swap_pos"): ("size({o}._swap_pos)", "size({o}._swap_pos)", False)}
    ct.index_params = {(r"Adjacency::Permutation::map", "i"): "size({o}._perm_pos)",
                       (r"Adjacency::Graph::degree$", "domain_node"): "Dom({o})",
                       (r"Adjacency::DynamicGraph::(insert|erase|exists)$", "domain_node"): "{o}._num_nodes_domain",
                       (r"Adjacency::DynamicGraph::(insert|erase|exists)$", "image_node"): "{o}._num_nodes_image"}
    # raw pointer parameters with documented meaning
    ct.param_arrays = {
        # Permutation(num_entries, constr_type, v): "input array ... permute-/swap-position array" of num_entries entries
        (r"Permutation::Permutation$", "v"): ("num_entries", "num_entries"),
        # Coloring(graph, order): "prescribed order" = one entry per node, each a node index
        (r"Coloring::Coloring$", "order"): ("Dom(graph)", "Dom(graph)"),
        # Graph(num_nodes_domain, num_nodes_image, num_indices_image, domain_ptr, image_idx)
        (r"Graph::Graph$", "domain_ptr"): (("num_nodes_domain", 1), None),
        (r"Graph::Graph$", "image_idx"): ("num_indices_image", None),
    }
    # index parameters documented as "domain node index" (ASSERTed in debug builds)
    ct.param_ranges = {(r"Adjacency::Graph::(degree|image_begin|image_end)$", "domain_node"): "Dom({o})",
                       (r"Adjacency::DynamicGraph::(degree|image_begin|image_end|insert|erase|exists)$", "domain_node"): "{o}._num_nodes_domain"}
    ct.ctor_sizes = {r"Adjacency::Graph::Graph$": {"num_nodes_domain": "Dom({o})", "num_nodes_image": "Img({o})", "num_indices_image": "NZ({o})"},
                     r"Adjacency::Permutation::Permutation$": {"num_entries": "size({o}._perm_pos)"}}
    ct.offset_keys = r"\._domain_ptr$"
    return ct


def seed(fk):
    """class invariants / documented input contracts as equalities"""
    fn = fk.fn
    cls = fn.cls or ""
    this = fk.this_key
    if re.search(P, cls):
        # Permutation::size() asserts _perm_pos.size() == _swap_pos.size()
        fk.unify(Lin.atom("size(%s._perm_pos)" % this), Lin.atom("size(%s._swap_pos)" % this), "class invariant stated by Permutation::size()")
    if re.search(G, cls):
        fk.unify(Lin.atom("Img(%s)" % this), Lin.atom("%s._num_nodes_image" % this), "Graph::get_num_nodes_image() returns _num_nodes_image")
        if not any(re.search(r"_domain_ptr", i.get("n") or "") for i in (fn.d.get("inits") or [])):
            # _domain_ptr has get_num_nodes_domain()+1 entries when it is not empty
            fk.unify(Lin.atom("size(%s._domain_ptr)" % this), Lin.atom("Dom(%s)" % this) + 1, "Graph: _domain_ptr dimension num_nodes_domain+1")
    for p in fn.params:
        ty = fn.type(p["t"]) or ""
        if re.search(r"Adjacency::Permutation\b", ty):
            o = p["n"]
            fk.unify(Lin.atom("size(%s._perm_pos)" % o), Lin.atom("size(%s._swap_pos)" % o), "class invariant stated by Permutation::size()")
    if fn.name == "Graph" and fn.param("domain_perm") and fn.param("image_perm"):
        # "domain_perm: the permutation of the domain set", "image_perm: the permutation of the image set"
        fk.unify(Lin.atom("size(domain_perm._perm_pos)"), Lin.atom("Dom(other)"), "doc: permutation of the domain set")
        fk.unify(Lin.atom("size(image_perm._perm_pos)"), Lin.atom("Img(other)"), "doc: permutation of the image set")
    if (re.search(r"Adjacency::Coloring$", cls) and fn.name == "Coloring" and fn.param("graph")) or \
            (re.search(r"Adjacency::CuthillMcKee$", cls) and fn.name == "compute" and fn.param("graph")):
        # colouring / ordering of the nodes of a node-to-node adjacency graph
        fk.unify(Lin.atom("Img(graph)"), Lin.atom("Dom(graph)"), "node adjacency graph: image set = domain set")


NAMES = ("calc_swap_from_perm", "calc_perm_from_swap", "size", "apply", "get_perm_pos", "get_swap_pos", "sort_indices", "get_num_nodes_domain")
# functions that are never inlined by the tree normaliser (lib/norm_c12.py): anchors of their own rules, calls the rules look for by name,
# accessors with contracts.  Any OTHER helper of the same class / file (a block a maintainer moved out) is read as its body.
KEEP = NAMES + ("_render_.*", "get_.*", "degree", "image_begin", "image_end", "insert", "erase", "exists", "compose", "compute", "release_color", "clear", "clone", "inverse",
                "concat", "map", "serialize", "bytes", "create_partition_graph", "permute_indices", "empty", "swap")


def vob(ck, fk, keys, names, rule, key, ok, detail, file=None, line=None, **kw):
    """obligation whose failure may be a MISSING effect: if the function hands one of the objects `keys` to an unmodelled callee / has a
    member helper or lambda that could do the work, the verdict is 'not evaluable' instead of a violation"""
    if not ok:
        why = elsewhere(fk, keys, names=names)
        if why:
            ck.incomplete(rule, "%s: %s -- but %s" % (key, detail[:200], why))
            return False
    return ck.ob(rule, key, ok, detail, file, line, **kw)


def short(fn):
    """line-number free name of a function instance"""
    q = fn.full.replace("FEAT::Adjacency::", "").replace("FEAT::Geometry::", "Geometry::").replace("FEAT::", "")
    sig = ",".join(p["n"] for p in fn.params)
    return "%s(%s)" % (q, sig)


def short_noinst(fn):
    q = re.sub(r"<.*>$", "", fn.qn.replace("FEAT::Adjacency::", ""))
    return "%s(%s)" % (q, ",".join(p["n"] for p in fn.params))


class World:
    def __init__(self, ck, tier):
        self.ck = ck
        self.tier = tier
        extra = ("-DC19_THOROUGH",) if tier == "thorough" else ()
        self.facts = [featlib.extract("tu/c19_graph.cpp", files=ADJ + "|" + featlib.repo_path("kernel/geometry/index_set.hpp"), extra=extra)]
        for tu in ("graph.cpp", "permutation.cpp", "coloring.cpp", "cuthill_mckee.cpp"):
            self.facts.append(featlib.extract(ADJ + tu, files=ADJ))
        for f in self.facts:
            ck.tu(f)
            bad = f.errors_in_repo() + f.errors_outside_repo()
            if bad:
                ck.incomplete("E2.safety", "TU %s has front-end errors: %s:%d %s" % (f.tu, bad[0]["file"], bad[0]["line"], bad[0]["msg"]))
        self.findex = FunctionIndex(self.facts)
        self.ct = contracts()
        self.fns = []
        seen = set()
        for f in self.facts:
            for fn in f.functions:
                if fn.tk == "pattern" or fn.body is None:
                    continue
                key = (fn.full, fn.file, fn.line)
                if key in seen:
                    continue
                seen.add(key)
                self.fns.append(fn)
        self._fk = {}
        self.norm = norm_c12.Normaliser(self.findex, keep=KEEP, else_of_return=(r"Adjacency::Permutation::apply\b",))
        for fn in self.fns:
            if re.search(SCOPE_RE, fn.file):
                try:
                    self.norm.apply(fn)
                except Exception as ex:          # a construct the normaliser trips over is "not modelled", never a crash of the check
                    ck.incomplete("E2.safety", "normalisation of %s failed (%s: %s)" % (fn.full[:120], type(ex).__name__, str(ex)[:120]))

    def fk(self, fn):
        k = (fn.full, fn.file, fn.line)
        if k not in self._fk:
            a = FnKinds(fn, self.findex, self.ct)
            seed(a)
            a.run()
            self._fk[k] = a
        return self._fk[k]

    def find(self, qn_re, file_re=None):
        return [fn for fn in self.fns if re.search(qn_re, fn.qn) and (file_re is None or re.search(file_re, fn.file))]


# -------------------------------------------------------------------------------------------------
# E2 safety
# -------------------------------------------------------------------------------------------------

def rule_safety(w):
    ck = w.ck
    obs = {}
    undecided = {"cursor": 0, "data": 0, "raw": 0, "caller": 0}
    skipped = set()
    for fn in w.fns:
        if not re.search(SCOPE_RE, fn.file) or not re.search(CLASS_RE, fn.cls or ""):
            continue
        if w.norm.inlined.get(fn.full, 0) > 0:
            # a helper whose body was read in place of its calls is judged there, with the facts of the call site (the kinds of its parameters
            # come from the arguments); stand-alone nothing is known about them
            skipped.add(short_noinst(fn))
            continue
        fk = w.fk(fn)
        name = short_noinst(fn)
        inst = short(fn)
        for what, line in fk.unknown:
            ck.incomplete("E2.safety", "%s (%s:%s): %s" % (inst, featlib.rel(fn.file), line, what))
        for e in fk.events:
            if e.kind == "sub":
                arr = e.arr
                if arr is None or arr.extent is None or arr.cond:
                    undecided["raw"] += 1
                    continue
                if isinstance(e.rng, Top):
                    if e.rng.cls == "unknown":
                        ck.incomplete("E2.safety", "%s (%s:%s): index %s of %s not classifiable: %s" % (inst, featlib.rel(fn.file), e.node.get("l"), render(e.idx), arr.key, e.rng.why))
                    else:
                        undecided[e.rng.cls] += 1
                    continue
                if e.rng.exact is not None and _caller_index(fk, fn, e.rng.exact):
                    undecided["caller"] += 1
                    continue
                if e.get("addr") and isinstance(e.rng, Rng):
                    # &A[e]: one past the end is a valid address
                    ok = fk.within(Rng(e.rng.lo, e.rng.hi - 1), arr.extent)
                else:
                    ok = e.ok
                key = "%s/%s[%s]" % (name, arr.key, e.idx_canon)
                detail = "%s[%s]: index in %r, array extent %r" % (arr.key, render(e.idx), e.rng, fk.norm(arr.extent))
                obs.setdefault(key, []).append((bool(ok), detail + (" (instance %s)" % inst if inst != name else ""), fn.file, e.node.get("l")))
            elif e.kind == "index-arg":
                if isinstance(e.rng, Top):
                    if e.rng.cls == "unknown":
                        ck.incomplete("E2.safety", "%s: argument %s of %s not classifiable" % (inst, render(e.arg), e.callee))
                    else:
                        undecided[e.rng.cls] += 1
                    continue
                if e.rng.exact is not None and _caller_index(fk, fn, e.rng.exact):
                    undecided["caller"] += 1
                    continue
                key = "%s/%s.%s(%s=%s)" % (name, e.obj, e.callee.rsplit("::", 1)[-1], e.param, e.arg_canon)
                detail = "argument %s of %s(%s): value in %r, admissible [0,%r)" % (render(e.arg), e.callee, e.param, e.rng, e.extent)
                obs.setdefault(key, []).append((bool(e.ok), detail, fn.file, e.node.get("l")))
            elif e.kind == "adjcall":
                if isinstance(e.rng, Top):
                    if e.rng.cls == "unknown":
                        ck.incomplete("E2.safety", "%s: domain node %s of %s.image_*() not classifiable" % (inst, render(e.node_expr), e.obj))
                    else:
                        undecided[e.rng.cls] += 1
                    continue
                if e.rng.exact is not None and _caller_index(fk, fn, e.rng.exact):
                    undecided["caller"] += 1
                    continue
                if e.dom is None:
                    ck.incomplete("E2.safety", "%s: adjactor %s of image_*() not nameable" % (inst, render(e.node)))
                    continue
                ok = fk.within(e.rng, e.dom)
                key = "%s/%s.%s(%s)" % (name, e.obj, e.node.get("n"), e.node_canon)
                detail = "%s.%s(%s): domain node in %r, adjactor domain [0,%r)" % (e.obj, e.node.get("n"), render(e.node_expr), e.rng, e.dom)
                obs.setdefault(key, []).append((bool(ok), detail, fn.file, e.node.get("l")))
    for key, lst in sorted(obs.items()):
        bad = [x for x in lst if not x[0]]
        pick = bad[0] if bad else lst[0]
        ck.ob("E2.safety", key, not bad, pick[1], pick[2], pick[3])
    if skipped:
        ck.note("E2.safety: helpers judged at their call sites (inlined), not stand-alone: %s" % ", ".join(sorted(skipped)))
    ck.note("E2.safety: %d subscripts through cursors (decided by E3), %d data-dependent indices (counters / values: not decided), %d subscripts of raw pointers "
            "without extent, %d caller-provided indices (preconditions)" % (undecided["cursor"], undecided["data"], undecided["raw"], undecided["caller"]))


def _caller_index(fk, fn, lin):
    """the index is (an offset of) a parameter that is not an extent of anything in the function: a precondition of the caller"""
    atoms = set(fk.norm(lin).t)
    pnames = {p["n"] for p in fn.params}
    if not (atoms & pnames):
        return False
    used = set()
    for a in fk.arrs.values():
        if a.extent is not None:
            used |= set(fk.norm(a.extent).t)
    return bool((atoms & pnames) - used)


def rule_pairs(w):
    """iterator pairs / offset segments name one adjacency list"""
    ck = w.ck
    obs = {}
    for fn in w.fns:
        if not re.search(SCOPE_RE, fn.file) or not re.search(CLASS_RE, fn.cls or "") or w.norm.inlined.get(fn.full, 0) > 0:
            continue
        fk = w.fk(fn)
        name = short_noinst(fn)
        for e in fk.events:
            if e.kind == "adjloop":
                lp = e.loop
                key = "%s/%s" % (name, lp.canon)
                d = "iteration from %s.image_begin(%s) to %s.image_end(%s)" % (lp.obj, render(lp.node_expr), lp.obj_end, render(lp.node_expr_end))
                obs.setdefault(key, []).append((bool(e.ok), d, fn.file, e.node.get("l")))
            elif e.kind == "segloop":
                lp = e.loop
                key = "%s/%s" % (name, lp.canon)
                d = "segment loop from %s[%s] to %s[%s]" % (lp.arr.key, render(lp.node_expr), lp.arr_end.key, render(lp.node_expr_end))
                obs.setdefault(key, []).append((bool(e.ok), d, fn.file, e.node.get("l")))
    for key, lst in sorted(obs.items()):
        bad = [x for x in lst if not x[0]]
        pick = bad[0] if bad else lst[0]
        ck.ob("E2.adj-list", key, not bad, pick[1], pick[2], pick[3])


# -------------------------------------------------------------------------------------------------
# E2 unsigned predecessor
# -------------------------------------------------------------------------------------------------

def _parents(root):
    par = {}
    st = [root]
    while st:
        n = st.pop()
        for c in children(n):
            par[id(c)] = n
            st.append(c)
    return par


def rule_unsigned_pred(w):
    ck = w.ck
    obs = {}
    for fn in w.fns:
        if not re.search(r"kernel/adjacency/(graph|permutation)\.(hpp|cpp)$", fn.file):
            continue
        fk = w.fk(fn)
        par = _parents(fn.body)
        for n in walk(fn.body):
            if n.get("k") != "Bin" or n.get("op") != "-" or n.get("synthetic"):
                continue          # (synthetic: bounds of loops that stand for a std algorithm, e.g. the n-1 steps of an in-place partial_sum)
            rhs = fk.size(n["rhs"])
            if rhs is None or not rhs.is_const() or rhs.c < 1:
                continue
            lhs = strip(n["lhs"])
            ext = _extent_atom(fk, fn, lhs)
            if ext is None:
                continue
            ty = fn.ntype(n) or ""
            if not ("unsigned" in ty or "Index" in ty or "size_t" in ty or "size_type" in ty):
                continue
            unclear = []
            guard = _nonempty_guard(fk, fn, n, par, ext, rhs.c, unclear)
            key = "%s/%s-%d" % (short_noinst(fn), ext, rhs.c)
            if guard is None and unclear:
                ck.incomplete("E2.unsigned-pred", "%s (%s:%s): `%s` is dominated by the condition %s on %s which is not classified as a non-emptiness check" % (
                    key, featlib.rel(fn.file), n.get("l"), render(n), render(unclear[0]), ext))
                continue
            d = "`%s` on an unsigned extent: %s" % (render(n), ("guarded by " + guard) if guard else
                                                    "no dominating check that %s >= %d (empty object: wraps to 2^64-1)" % (ext, rhs.c))
            obs.setdefault(key, []).append((guard is not None, d, fn.file, n.get("l")))
    for key, lst in sorted(obs.items()):
        bad = [x for x in lst if not x[0]]
        pick = bad[0] if bad else lst[0]
        ck.ob("E2.unsigned-pred", key, not bad, pick[1], pick[2], pick[3])


_ANY_SIZE = [False]      # set while E7.size-precond runs: any size atom (Dom(graph), ...) counts as an extent, not only container lengths


def _extent_atom(fk, fn, lhs):
    """Lin repr if lhs is the length of a container / an extent parameter (also through a single-assignment local: `const Index n(this->size())`)"""
    lhs = strip(lhs)
    if lhs is not None and lhs.get("k") == "Ref" and lhs.get("dk") == "local":
        r = fk._resolve_local(lhs)
        for _ in range(2):
            if r is not None and r.get("k") in ("Construct", "TempObj") and len(r.get("a", [])) == 1:
                r = strip(r["a"][0])
        if r is not None and r is not lhs:
            lhs = r
    if lhs.get("k") == "MCall" and lhs.get("n") == "size" and not lhs.get("a"):
        s = fk.size(lhs)
        if s is None:
            k = fk.okey(lhs.get("obj")) if lhs.get("obj") is not None else fk.this_key
            return "size(%s)" % k
        return repr(_raw_size(fk, lhs))
    if lhs.get("k") == "Ref" and lhs.get("dk") == "param" and re.match(r"num_|size|count|n_", lhs["n"]):
        return lhs["n"]
    if _ANY_SIZE[0] and lhs.get("k") in ("MCall", "Member", "Ref"):
        z = fk.size(lhs)
        if z is not None and fk.norm(z).single_atom():
            return fk.norm(z).single_atom()
    return None


def _raw_size(fk, n):
    """size expression without the class-invariant substitutions (for readable, stable keys)"""
    n = strip(n)
    if n.get("k") == "MCall" and n.get("n") == "size":
        obj = n.get("obj")
        key = fk.okey(obj) if obj is not None else fk.this_key
        if (n.get("ccls") or "").startswith("std::"):
            return Lin.atom("size(%s)" % key)
        callee = fk.findex.lookup(n)
        if callee is not None:
            for s in callee.body.get("s", []):
                if s.get("k") == "Return":
                    e = strip(s.get("e"))
                    if e.get("k") == "MCall" and e.get("n") == "size" and strip(e.get("obj")).get("k") == "Member":
                        return Lin.atom("size(%s.%s)" % (key, strip(e["obj"])["n"]))
        return Lin.atom("size(%s)" % key)
    return fk.size(n)


def _test_kind(fk, cond, ext, need):
    """+1: cond implies ext >= need, -1: cond implies ext < need (so its negation gives >= need), 0: unrelated"""
    c = strip(cond)
    if c is None:
        return 0
    if c.get("k") == "Un" and c.get("op") == "!":
        return -_test_kind(fk, c["e"], ext, need)
    if c.get("k") == "MCall" and c.get("n") == "empty":
        key = fk.okey(c.get("obj")) if c.get("obj") is not None else fk.this_key
        if _same_extent(fk, "size(%s)" % key, ext) and need <= 1:
            return -1
        return 0
    if c.get("k") == "Bin" and c.get("op") in ("<", "<=", ">", ">=", "==", "!="):
        l, r = strip(c["lhs"]), strip(c["rhs"])
        la, ra = _extent_atom(fk, fk.fn, l), _extent_atom(fk, fk.fn, r)
        op = c["op"]
        if la is None and ra is not None:
            l, r, la, ra = r, l, ra, la
            op = {"<": ">", "<=": ">=", ">": "<", ">=": "<=", "==": "==", "!=": "!="}[op]
        if la is None or not _same_extent(fk, la, ext):
            return 0
        cv = fk.size(r)
        if cv is None or not cv.is_const():
            return 0
        cst = cv.c
        if op == ">" and cst >= need - 1:
            return 1
        if op == ">=" and cst >= need:
            return 1
        if op == "!=" and cst == 0 and need <= 1:
            return 1
        if op == "==" and cst == 0 and need <= 1:
            return -1
        if op == "<" and cst >= need:
            return -1
        if op == "<=" and cst >= need - 1:
            return -1
        return 0
    if c.get("k") == "Bin" and c.get("op") == "&&":
        a, b = _test_kind(fk, c["lhs"], ext, need), _test_kind(fk, c["rhs"], ext, need)
        return 1 if (a == 1 or b == 1) else 0
    return 0


def _same_extent(fk, a, b):
    if a == b:
        return True
    return fk.norm(Lin.atom(a)) == fk.norm(Lin.atom(b))


def _leaves(stmt):
    """does the statement unconditionally leave the function (return / abort)?"""
    s = strip(stmt)
    if s is None:
        return False
    if s.get("k") in ("Return", "Throw"):
        return True
    if s.get("k") == "Call" and s.get("noreturn"):
        return True
    if s.get("k") == "Block":
        return any(_leaves(x) for x in s.get("s", []))
    return False


def _mentions_extent(fk, cond, ext):
    for x in walk(cond):
        if x.get("k") in ("MCall", "Ref"):
            a = _extent_atom(fk, fk.fn, x)
            if a is not None and _same_extent(fk, a, ext):
                return True
        if x.get("k") == "MCall" and x.get("n") == "empty":
            key = fk.okey(x.get("obj")) if x.get("obj") is not None else fk.this_key
            if _same_extent(fk, "size(%s)" % key, ext):
                return True
    return False


def _nonempty_guard(fk, fn, node, par, ext, need, unclear=None):
    unclear = unclear if unclear is not None else []
    cur = node
    while id(cur) in par:
        p = par[id(cur)]
        k = p.get("k")
        if k in ("If", "Cond", "For", "While") and p.get("c") is not None and cur is not p.get("c") \
                and _test_kind(fk, p.get("c"), ext, need) == 0 and _mentions_extent(fk, p.get("c"), ext):
            unclear.append(p.get("c"))
        if k == "Block":
            for s0 in p.get("s", []):
                if s0 is cur:
                    break
                s1 = strip(s0)
                c0 = None
                if s1.get("k") == "Call" and (s1.get("callee") or "").endswith("FEAT::assertion") and s1.get("a"):
                    c0 = s1["a"][0]
                elif s1.get("k") == "If" and _leaves(s1.get("then")):
                    c0 = s1.get("c")
                if c0 is not None and _test_kind(fk, c0, ext, need) == 0 and _mentions_extent(fk, c0, ext):
                    unclear.append(c0)
        if k in ("If", "Cond"):
            t = _test_kind(fk, p.get("c"), ext, need)
            if t == 1 and cur is p.get("then"):
                return "the enclosing condition %s" % render(p.get("c"))
            if t == -1 and cur is p.get("else"):
                return "the else branch of %s" % render(p.get("c"))
        if k in ("For", "While") and cur is p.get("body"):
            t = _test_kind(fk, p.get("c"), ext, need)
            if t == 1:
                return "the loop condition %s" % render(p.get("c"))
        if k == "Block":
            for s in p.get("s", []):
                if s is cur:
                    break
                s2 = strip(s)
                if s2.get("k") == "Call" and (s2.get("callee") or "").endswith("FEAT::assertion") and s2.get("a"):
                    if _test_kind(fk, s2["a"][0], ext, need) == 1:
                        return "XASSERT(%s)" % render(s2["a"][0])
                if s2.get("k") == "If" and _leaves(s2.get("then")) and _test_kind(fk, s2.get("c"), ext, need) == -1:
                    return "the early exit under %s" % render(s2.get("c"))
        cur = p
    return None


# -------------------------------------------------------------------------------------------------
# coverage
# -------------------------------------------------------------------------------------------------

# -------------------------------------------------------------------------------------------------
# Graph render functions: roles, dispatch, two-pass agreement
# -------------------------------------------------------------------------------------------------

class Render:
    """analysis of one render function instance (callee of the render constructors)"""

    def __init__(self, w, fn):
        self.w = w
        self.fn = fn
        self.fk = w.fk(fn)
        fk = self.fk
        self.P = "this._domain_ptr"
        self.I = "this._image_idx"
        self.adjs = [p["n"] for p in fn.params]
        first, last = self.adjs[0], self.adjs[-1]
        self.plain = (Lin.atom("Dom(%s)" % first), Lin.atom("Img(%s)" % last))
        self.transposed = (Lin.atom("Img(%s)" % last), Lin.atom("Dom(%s)" % first))
        # roles at every exit
        self.exits = []
        for node, fields, arrs in fk.returns:
            pe = arrs.get(self.P)
            dom = (fk.norm(pe[0]) - 1) if pe is not None and pe[0] is not None and not pe[1] else None
            img = fk.norm(fields["this._num_nodes_image"]) if "this._num_nodes_image" in fields else None
            self.exits.append((node, dom, img))
        self.role = None
        self.role_why = ""
        kinds = set()
        # a domain pointer array whose extent is not a size expression / an image count assigned from a non-size: not evaluable
        pk = [e for e in fk.events if e.kind == "alloc" and e.arr.key == self.P]
        if any(e.arr.extent is None for e in pk):
            self.role_why = "extent %s of _domain_ptr is not a size expression" % ", ".join(getattr(e.arr, "extent_canon", "?") for e in pk if e.arr.extent is None)
        if any(e.kind == "field" and e.key == "this._num_nodes_image" and e.val is None for e in fk.events):
            self.role_why = "_num_nodes_image is assigned a value that is not a size expression"
        if any(arrs.get(self.P) is not None and arrs[self.P][1] for node, fields, arrs in fk.returns):
            self.role_why = "_domain_ptr is allocated conditionally"
        for node, dom, img in self.exits:
            if dom is not None and img is not None and (dom, img) == tuple(fk.norm(x) for x in self.plain):
                kinds.add("plain")
            elif dom is not None and img is not None and (dom, img) == tuple(fk.norm(x) for x in self.transposed):
                kinds.add("transposed")
            else:
                kinds.add("bad")
        if self.role_why or fk.unknown:
            self.role = "unknown"
            self.role_why = self.role_why or "function contains constructs that are not modelled"
        elif len(kinds) == 1:
            self.role = kinds.pop()
        else:
            self.role = "bad"
        # passes: top-level loops
        self.passes = []
        cur = []
        for e in fk.events:
            if e.frames:
                cur.append(e)
            else:
                if e.kind == "loop-end":
                    self.passes.append((e.loop, cur, e))
                    cur = []
                else:
                    cur = []
        # mask arrays: local zero-initialised arrays tested in conditions
        self.masks = set()
        self.mask_unknown = ""
        self.tested_scratch = set()
        for e in fk.events:
            if e.kind == "if":
                for x in walk(e.cond):
                    a0 = fk.sub_arr(x) if (x.get("k") != "Cast" and _subscript(x) is not None) else None
                    if a0 is not None and a0.owner == "local" and a0.fresh:
                        self.tested_scratch.add(a0.key)
                mt = mask_test(e.canon)
                if mt and mt[0] in fk.arrs and fk.arrs[mt[0]].owner == "local":
                    self.masks.add(mt[0])
                elif not mt:
                    # a condition on a local scratch array in another spelling: a filter this model does not read
                    for x in walk(e.cond):
                        a = fk.sub_arr(x) if (x.get("k") != "Cast" and _subscript(x) is not None) else None
                        if a is not None and a.owner == "local" and a.fresh:
                            self.mask_unknown = "condition %s on the scratch array %s is not a recognised duplicate test" % (render(e.cond), a.key)
        self.injectifying = bool(self.masks)

    # an event that belongs to the pass-specific action (count / fill), not to the shared skeleton
    def is_action(self, e):
        if e.kind in ("cursor-init", "cursor-sel", "cursor-write", "cursor-adv", "cursor-array-init", "scalar", "deref-write"):
            return True
        if e.kind == "sub" and e.arr is not None:
            if e.arr.key in (self.P, self.I) or getattr(e.arr, "cursor_of", None):
                return True
        return False

    def projection(self, evs):
        out = []
        for e in evs:
            if self.is_action(e):
                continue
            if e.kind in ("call", "adjcall"):
                continue
            fr = frames_key(e.frames[1:])
            if e.kind == "sub":
                out.append((fr, "sub", e.arr.key, e.idx_canon, e.mode, e.op, e.val_canon))
            elif e.kind == "if":
                mt = mask_test(e.canon)
                out.append((fr, "if", ("unmarked", mt[0], mt[1]) if mt and mt[0] in self.masks else e.canon))
            elif e.kind in ("adjloop", "segloop", "loop-end", "while", "foreach", "downloop"):
                out.append((fr, e.kind, e.loop.canon if e.get("loop") is not None else ""))
            else:
                out.append((fr, e.kind, render(e.node)[:80]))
        return out


def rule_renders(w):
    ck = w.ck
    # ---- the render constructors and their dispatch ------------------------------------------------
    ctors = [fn for fn in w.fns if fn.name == "Graph" and re.search(G, fn.cls or "") and fn.param("render_type") and fn.tk == "inst"]
    if not ctors:
        ck.incomplete("E13.render-dispatch", "no instantiated render constructor Graph(RenderType, adjactor...) found")
    renders = {}
    for ctor in sorted(ctors, key=lambda f: f.full):
        fk = w.fk(ctor)
        cname = short(ctor)
        arms = {}
        for e in fk.events:
            cases = [f for f in e.frames if f.kind == "case"]
            if not cases:
                continue
            arm = cases[-1]
            a = arms.setdefault(id(arm.node), {"labels": arm.labels, "calls": [], "node": arm.node})
            if e.kind == "call" and e.obj == "this" and e.name not in (None, "") and not (e.callee or "").startswith("std::"):
                conds = [f.canon for f in e.frames if f.kind == "if" and f.branch == "then"]
                a["calls"].append((e, conds))
        if not arms:
            ck.incomplete("E13.render-dispatch", "%s: no switch over the render type recognised" % cname)
            continue
        for arm in arms.values():
            rcalls = [(e, c) for e, c in arm["calls"] if e.name != "sort_indices"]
            scalls = [(e, c) for e, c in arm["calls"] if e.name == "sort_indices"]
            for lab in arm["labels"]:
                if lab == "default":
                    continue
                ename = lab.rsplit("::", 1)[-1]
                key = "%s/%s" % (cname, ename)
                want_t, want_i, want_s = "transpose" in ename, "injectify" in ename, ename.endswith("_sorted")
                if len(rcalls) != 1 or rcalls[0][1]:
                    ck.ob("E13.render-dispatch", key, False, "case %s does not call exactly one render function unconditionally (%s)" % (
                        ename, ", ".join(e.name for e, c in rcalls) or "none"), ctor.file, arm["node"].get("l"))
                    continue
                call = rcalls[0][0].node
                callee = w.findex.lookup(call)
                if callee is None:
                    ck.incomplete("E13.render-dispatch", "%s: callee %s not in the fact base" % (key, call.get("cfull")))
                    continue
                ck_ = (callee.full, callee.line)
                if ck_ not in renders:
                    renders[ck_] = Render(w, callee)
                r = renders[ck_]
                problems = []
                if r.role == "unknown" or r.mask_unknown:
                    ck.incomplete("E13.render-dispatch", "%s: callee %s not evaluable (%s)" % (key, callee.name, r.role_why or r.mask_unknown))
                    continue
                if r.role == "bad":
                    problems.append("callee %s has no consistent domain/image roles (see E1.render-roles)" % callee.name)
                elif (r.role == "transposed") != want_t:
                    problems.append("render type %s %s a transposed result but %s builds the %s relation" % (
                        ename, "documents" if want_t else "does not document", callee.name, r.role))
                if r.injectifying != want_i:
                    problems.append("render type %s %s duplicate-free adjacency lists but %s %s duplicates" % (
                        ename, "documents" if want_i else "documents 'as is' (including duplicates), not", callee.name, "filters" if r.injectifying else "does not filter"))
                # argument order: adjactors passed in parameter order
                args = [fk.canon(a) for a in call.get("a", [])]
                params = [p["n"] for p in ctor.params[1:]]
                if args != params:
                    problems.append("adjactors are passed as (%s), constructor parameters are (%s)" % (", ".join(args), ", ".join(params)))
                sorted_for = [c for e, c in scalls]
                if want_s and not want_t:
                    if not any((not c) or any(lab in x for x in c) for c in sorted_for):
                        problems.append("%s requires sorted image indices but sort_indices() is not called for it" % ename)
                if not want_s and not want_t:
                    if any((not c) or any(re.search(re.escape(lab) + r"\b(?!_)", x) for x in c) for c in sorted_for):
                        problems.append("sort_indices() is also applied for the unsorted render type %s" % ename)
                if want_t and r.role == "transposed" and not r_monotone(r):
                    problems.append("transposed render relies on 'automatically sorted' but the stored values are not the ascending outer loop variable")
                ck.ob("E13.render-dispatch", key, not problems, "; ".join(problems) if problems else
                      "%s -> %s (%s%s%s)" % (ename, callee.name, r.role, ", duplicate filter" if r.injectifying else "", ", sort_indices()" if want_s and not want_t else ""),
                      ctor.file, arm["node"].get("l"), sample={"case": ename, "callee": callee.full, "role": r.role, "injectify": r.injectifying})
    # DynamicGraph renders (thorough tier instantiates them): roles only
    for fn in w.fns:
        if re.search(r"Adjacency::DynamicGraph$", fn.cls or "") and fn.name.startswith("_render") and fn.tk == "inst":
            rule_dyn_render(w, fn)
    # ---- per render function ---------------------------------------------------------------------------
    for r in sorted(renders.values(), key=lambda r: r.fn.full):
        render_roles(w, r)
        render_mask_constant(w, r)
        render_two_pass(w, r)


def r_monotone(r):
    """stored values are the variable of the outermost ascending loop (rows of the transpose are sorted by construction)"""
    fk = r.fk
    ws = [e for e in fk.events if e.kind == "cursor-write" or (e.kind == "sub" and e.mode == "write" and e.arr.key == r.I)]
    if not ws:
        return False
    for e in ws:
        loops = [f for f in e.frames if f.kind == "loop"]
        if not loops or loops[0].loop is None or loops[0].loop.kind != "range" or e.val_canon != "$0":
            return False
    return True


def render_roles(w, r):
    ck = w.ck
    fk = r.fk
    name = short(r.fn)
    if r.role == "unknown":
        ck.incomplete("E1.render-roles", "%s: %s" % (name, r.role_why))
        return
    for n, (node, dom, img) in enumerate(r.exits):
        key = "%s/exit%d" % (name, n) if len(r.exits) > 1 else name
        pl = tuple(fk.norm(x) for x in r.plain)
        tr = tuple(fk.norm(x) for x in r.transposed)
        ok = (dom, img) in (pl, tr)
        d = "result has %r domain nodes (extent of _domain_ptr - 1) and _num_nodes_image = %r; " % (dom, img)
        if ok:
            d += "this is the %s relation of (%s)" % ("transposed" if (dom, img) == tr else "plain", ", ".join(r.adjs))
        else:
            d += "expected (%r, %r) for the plain or (%r, %r) for the transposed relation" % (pl[0], pl[1], tr[0], tr[1])
        if ok and r.role == "bad":
            ok = False
            d += "; the exits of the function do not agree on the roles"
        ck.ob("E1.render-roles", key, ok, d, r.fn.file, (node or {}).get("l") or r.fn.line)


def rule_dyn_render(w, fn):
    ck = w.ck
    fk = w.fk(fn)
    adjs = [p["n"] for p in fn.params]
    first, last = adjs[0], adjs[-1]
    dom = fk.fields.get("this._num_nodes_domain")
    img = fk.fields.get("this._num_nodes_image")
    pl = (fk.norm(Lin.atom("Dom(%s)" % first)), fk.norm(Lin.atom("Img(%s)" % last)))
    tr = (pl[1], pl[0])
    got = (fk.norm(dom) if dom is not None else None, fk.norm(img) if img is not None else None)
    want = tr if "transpose" in fn.name else pl
    ck.ob("E1.render-roles", short(fn), got == want, "DynamicGraph result has (_num_nodes_domain, _num_nodes_image) = %r, the %s relation of (%s) has %r" % (
        got, "transposed" if want == tr else "plain", ", ".join(adjs), want), fn.file, fn.line)


def rule_dyn_compose(w):
    """DynamicGraph::compose(adj): afterwards the graph is (Dom(this), Img(adj)) and holds image nodes of adj"""
    ck = w.ck
    fns = [fn for fn in w.fns if re.search(r"Adjacency::DynamicGraph$", fn.cls or "") and fn.name == "compose" and fn.tk == "inst"]
    if not fns:
        ck.incomplete("E1.render-roles", "DynamicGraph::compose not instantiated by the driver")
    for fn in fns:
        fk = w.fk(fn)
        name = short_noinst(fn)
        adj = fn.params[0]["n"]
        if fk.unknown:
            ck.incomplete("E1.render-roles", "%s: %s" % (name, "; ".join(x[0] for x in fk.unknown)))
            continue
        img_sets = [e for e in fk.events if e.kind == "field" and e.key == "this._num_nodes_image"]
        dom_sets = [e for e in fk.events if e.kind == "field" and e.key == "this._num_nodes_domain"]
        want = fk.norm(Lin.atom("Img(%s)" % adj))
        if any(e.val is None for e in img_sets + dom_sets) or any(e.frames for e in img_sets + dom_sets):
            ck.incomplete("E1.render-roles", "%s: the node counts are assigned values that are not size expressions / conditionally" % name)
            continue
        why = elsewhere(fk, ("this._num_nodes_image", "this._num_nodes_domain"))
        problems = []
        if dom_sets:
            problems.append("the domain node count is changed to %r" % fk.norm(dom_sets[-1].val))
        if not img_sets:
            if why:
                ck.incomplete("E1.render-roles", "%s: no assignment of _num_nodes_image found; %s" % (name, why))
                continue
            problems.append("_num_nodes_image is not updated: it keeps the pre-composition image count %r" % fk.norm(Lin.atom("this._num_nodes_image")))
        else:
            got = fk.norm(img_sets[-1].val)
            if got != want:
                problems.append("_num_nodes_image is set to %r; the composed relation maps into the image set of %s, %r (differs for a non-square adjactor)" % (got, adj, want))
        # the indices inserted are image nodes of adj
        ins = [e for e in fk.events if e.kind == "call" and e.name == "insert" and (e.callee or "").startswith("std::") and e.args_rng]
        for e in ins:
            r0 = e.args_rng[0]
            if isinstance(r0, Rng) and not fk.within(r0, want):
                problems.append("inserted index %s has kind %r, not an image node of %s" % (e.args_canon[0], r0, adj))
        ck.ob("E1.render-roles", name, not problems, "; ".join(problems) if problems else
              "after compose(%s): domain count unchanged, _num_nodes_image = %r, inserted indices are image nodes of %s" % (adj, want, adj), fn.file, img_sets[-1].node.get("l") if img_sets else fn.line)


def render_mask_constant(w, r):
    """the duplicate mask of an injectify render is a FLAG array: its elements are only assigned constants (mark / reset).  Arithmetic on an element
    (`mask[x]++ == 0`, `mask[x] += 1`) turns it into an occurrence counter of the element type - for the narrow mask types (char, bool, short) it wraps
    after 2^8 / 2^16 occurrences of one image node and the node is listed again"""
    ck = w.ck
    fk = r.fk
    fn = r.fn
    name = short(fn)
    for key in sorted(r.tested_scratch):
        arr = fk.arrs.get(key)
        if arr is None:
            continue
        ety = ""
        if arr.node is not None and arr.node.get("k") == "Decl" and arr.node.get("vars"):
            ety = fn.type(arr.node["vars"][0].get("t")) or ""
        m = re.search(r"vector<\s*([^,>]+)", ety)
        elem = (m.group(1).strip() if m else ety).replace("const ", "")
        narrow = elem in ("char", "signed char", "unsigned char", "bool", "short", "unsigned short", "std::uint8_t", "std::int8_t", "std::uint16_t", "std::int16_t", "uint8_t", "uint16_t")
        ws = [e for e in fk.events if e.kind == "sub" and e.mode == "write" and e.arr is arr]
        arith = [e for e in ws if e.op not in ("=",)]
        nonconst = [e for e in ws if e.op == "=" and not (fk.size(e.val) is not None and fk.size(e.val).is_const()) and strip(e.val).get("k") not in ("Bool", "Char")]
        okey_ = "%s/%s" % (name, key)
        if arith and narrow:
            ck.ob("E3.mask-constant", okey_, False, "the duplicate mask %s (element type %s) is updated by `%s` (line %s): it is no longer a flag but an occurrence counter of %s that wraps to 0 "
                  "after %s occurrences of one image node in an adjacency list - the test `== 0` then accepts the node a second time (duplicate-free rendering broken for "
                  "adjacency lists with that many repetitions)" % (key, elem, render(arith[0].node)[:40], arith[0].node.get("l"), elem,
                                                                  "2" if elem == "bool" else ("256" if "char" in elem or "8" in elem else "65536")), fn.file, arith[0].node.get("l"))
        elif arith or nonconst or not elem:
            ck.incomplete("E3.mask-constant", "%s: the scratch array is updated by %s (element type %s): neither a flag protocol nor a narrow counter" % (
                okey_, render((arith or nonconst or ws)[0].node)[:40] if (arith or nonconst or ws) else "?", elem or "?"))
        else:
            ck.ob("E3.mask-constant", okey_, True, "%s (element type %s) is only assigned constants: %s" % (key, elem, ", ".join(sorted({e.val_canon for e in ws})) or "-"), fn.file, fn.line)


def render_two_pass(w, r):
    ck = w.ck
    fk = r.fk
    fn = r.fn
    name = short(fn)
    P, I = r.P, r.I

    def ob(rule, sub, ok, detail, line=None):
        ck.ob(rule, "%s/%s" % (name, sub) if sub else name, ok, detail, fn.file, line or fn.line)

    if fk.unknown or r.role == "unknown" or r.mask_unknown:
        ck.incomplete("E3.two-pass", "%s: not evaluable (%s)" % (name, "; ".join(x[0] for x in fk.unknown) or r.role_why or r.mask_unknown))
        return
    # ---- coverage of the pointer array -------------------------------------------------------------
    ok, detail = coverage(fk, P)
    if ok is None:
        ck.incomplete("E2.coverage", "%s: %s" % (name, detail))
    else:
        vob(ck, fk, (P,), NAMES, "E2.coverage", "%s/_domain_ptr" % name, ok, detail, fn.file, fn.line)

    # ---- classify passes ------------------------------------------------------------------------------
    count_pass = fill_pass = None
    prefix = None
    cursor_init = None
    ambiguous = False

    def is_counter(e):
        v = fk.locals.get(e.var)
        return v is not None and fk._is_integral(v)
    for lp, evs, endev in r.passes:
        kinds = set()
        for e in evs:
            if e.kind == "scalar" and e.op == "++" and is_counter(e):
                kinds.add("count")
            if e.kind == "sub" and e.arr.key == P and e.mode == "write":
                if e.op == "++":
                    kinds.add("count")
                elif e.op == "+=" or (e.op == "=" and e.val_canon and P in e.val_canon):
                    kinds.add("prefix")
                elif e.op == "=":
                    kinds.add("offset-store")
            if e.kind == "cursor-array-init":
                kinds.add("cursor-array")
            if e.kind in ("cursor-write",) or (e.kind == "sub" and e.arr.key == I and e.mode == "write"):
                kinds.add("fill")
        if "fill" in kinds:
            if fill_pass is not None:
                ck.incomplete("E3.two-pass", "%s: more than one loop writes the image index array" % name)
                ambiguous = True
            fill_pass = (lp, evs, endev)
        elif "count" in kinds:
            if count_pass is not None:
                ck.incomplete("E3.two-pass", "%s: more than one counting loop" % name)
                ambiguous = True
            count_pass = (lp, evs, endev)
        if "prefix" in kinds:
            prefix = (lp, evs, endev)
        if "cursor-array" in kinds:
            cursor_init = (lp, evs, endev)
    if ambiguous:
        return          # which loop is the counting / filling pass is not decided: nothing is judged
    if count_pass is None or fill_pass is None:
        ck.incomplete("E3.two-pass", "%s: counting pass / filling pass not recognised" % name)
        return
    problems = []
    # (1) skeletons agree
    pc, pf = r.projection(count_pass[1]), r.projection(fill_pass[1])
    if count_pass[0].canon != fill_pass[0].canon:
        problems.append("the counting pass iterates %s, the filling pass %s" % (count_pass[0].canon, fill_pass[0].canon))
    if pc != pf:
        diff = None
        for a, b in zip(pc, pf):
            if a != b:
                diff = (a, b)
                break
        if diff is None:
            longer, which = (pc, "counting") if len(pc) > len(pf) else (pf, "filling")
            diff = (longer[min(len(pc), len(pf))], "nothing (only in the %s pass)" % which)
        problems.append("the two passes do not traverse/filter alike: counting pass has %s where the filling pass has %s" % (diff[0], diff[1]))
    # (2) unit actions in the same context
    units_c = [e for e in count_pass[1] if (e.kind == "scalar" and e.op == "++" and is_counter(e)) or (e.kind == "sub" and e.arr.key == P and e.op == "++")]
    writes_f = [e for e in fill_pass[1] if e.kind == "cursor-write" or (e.kind == "sub" and e.arr.key == I and e.mode == "write")]
    advs_f = [e for e in fill_pass[1] if e.kind == "cursor-adv"]
    ctx_c = {frames_key(e.frames[1:]) for e in units_c}
    ctx_f = {frames_key(e.frames[1:]) for e in writes_f}
    if len(ctx_c) != 1 or len(ctx_f) != 1 or ctx_c != ctx_f:
        problems.append("an adjacency is counted under [%s] but stored under [%s]" % (" | ".join(sorted(ctx_c)), " | ".join(sorted(ctx_f))))
    if len(writes_f) != 1:
        problems.append("%d stores into the image index array per visited adjacency (expected one)" % len(writes_f))
    per_target = {}
    for e in units_c:
        t = ("counter", e.var) if e.kind == "scalar" else ("offsets", e.idx_canon)
        per_target[t] = per_target.get(t, 0) + 1
    if any(v != 1 for v in per_target.values()) or len([t for t in per_target if t[0] == "offsets"]) > 1:
        problems.append("a visited adjacency is counted %s times" % "/".join(str(v) for v in per_target.values()))
    # the cursor advance belongs to the store: same context, or in the header of the innermost loop of the store
    adv_ok = False
    for a in advs_f:
        ka = frames_key(a.frames[1:])
        if ka in ctx_f:
            adv_ok = True
    if len(advs_f) != 1 or not adv_ok:
        problems.append("the fill cursor is advanced %d times per stored adjacency / not in the context of the store" % len(advs_f))
    vob(ck, fk, (P, I), NAMES, "E3.two-pass", name, not problems, "; ".join(problems) if problems else
          "counting and filling pass traverse %s with identical loop nests and filters (%d skeleton events); one store + one cursor advance per counted adjacency" % (count_pass[0].canon, len(pc)),
          fn.file, count_pass[0].node.get("l"), sample={"count_ctx": sorted(ctx_c), "fill_ctx": sorted(ctx_f)})

    # ---- offsets / cursors ----------------------------------------------------------------------------------
    problems = []
    unclear = []
    pext = fk.norm(fk.arrs[P].extent) if fk.arrs.get(P) is not None and fk.arrs[P].extent is not None else None
    counters = {e.var for e in units_c if e.kind == "scalar"}
    pcount = [e for e in units_c if e.kind == "sub"]
    if r.role == "plain":
        # P[i] = counter before the adjacencies of i are counted; P[D] = counter afterwards
        stores = [e for e in count_pass[1] if e.kind == "sub" and e.arr.key == P and e.mode == "write" and e.op == "="]
        first_unit = min(e.seq for e in units_c) if units_c else 0
        last_unit = max(e.seq for e in units_c) if units_c else 0

        def is_count(e):
            return strip(e.val).get("k") == "Ref" and strip(e.val).get("d") in counters
        good = [e for e in stores if len(e.frames) == 1 and e.idx_canon == "$0" and is_count(e) and e.seq < first_unit]
        # the same offsets written as END offsets: _domain_ptr[0] = 0 before the loop, _domain_ptr[node+1] = running count AFTER the node was counted
        good_end = [e for e in stores if len(e.frames) == 1 and e.idx_canon == "($0 + 1)" and is_count(e) and e.seq > last_unit]
        term = [e for e in fk.events if e.kind == "sub" and e.arr.key == P and e.mode == "write" and not e.frames and e.seq > count_pass[2].seq]
        if len(stores) == 1 and len(good_end) == 1:
            head = [e for e in fk.events if e.kind == "sub" and e.arr.key == P and e.mode == "write" and not e.frames and e.seq < count_pass[1][0].seq
                    and e.rng.exact is not None and fk.norm(e.rng.exact) == Lin.const(0) and fk.size(e.val) == Lin.const(0)]
            parr0 = fk.arrs.get(P)
            if not head and not (parr0 is not None and parr0.zero):
                problems.append("the offsets are stored as end offsets _domain_ptr[node+1] but _domain_ptr[0] is never set to 0")
            if term:
                problems.append("_domain_ptr is written again after the counting pass that already stored every end offset")
        elif len(good) == 1 and len(stores) == 1:
            if not (len(term) == 1 and term[0].rng.exact is not None and pext is not None and fk.norm(term[0].rng.exact) + 1 == pext
                    and is_count(term[0]) and term[0].seq < fill_pass[1][0].seq):
                problems.append("the final offset _domain_ptr[#domain] is not set to the total count after the counting pass")
        elif len(stores) == 1 and len(stores[0].frames) == 1 and is_count(stores[0]) and stores[0].idx_canon in ("$0", "($0 + 1)"):
            # recognised form, wrong place: the running count is stored on the wrong side of the node's adjacencies
            problems.append("the counting pass stores the running count into _domain_ptr[%s] %s counting the node's adjacencies: every offset is shifted by one list" % (
                stores[0].idx_canon.replace("$0", "node"), "after" if stores[0].idx_canon == "$0" else "before"))
        elif not stores and not elsewhere(fk, (P,), names=NAMES):
            problems.append("the counting pass does not store the running count into _domain_ptr[node] before counting the node's adjacencies")
        else:
            unclear.append("the offset stores of the counting pass (%s) are not of a modelled form" % ("; ".join("%s[%s] = %s" % (P, e.idx_canon, e.val_canon) for e in stores) or elsewhere(fk, (P,), names=NAMES)))
        if pcount:
            problems.append("plain render increments _domain_ptr entries while counting")
        # fill cursor of node i starts at P[i]
        ci = [e for e in fill_pass[1] if e.kind == "cursor-init"]
        okc = False
        for e in ci:
            if len(e.frames) != 1:
                continue
            if e.form == "ptr" and e.arr.key == I and e.start_canon == "%s[$0]" % P:
                okc = True
            if e.form == "idx" and e.start_canon == "%s[$0]" % P:
                okc = True
        if len(ci) != 1 or not okc:
            problems.append("the fill cursor of a node does not start at _domain_ptr[node] (%s)" % ", ".join(e.start_canon for e in ci))
        for e in writes_f:
            if e.kind == "sub":
                ix = strip(e.idx)
                if not (ix.get("k") == "Ref" and ix.get("d") in fk.cursor):
                    problems.append("store into _image_idx is not through the fill cursor")
        last_def = term[0].seq if term else count_pass[2].seq
    else:
        # transposed: zero-initialised counts, ++P[x+1], prefix sum over [0,D), cursor array covering [0,D)
        parr = fk.arrs.get(P)
        if not (parr is not None and parr.zero):
            problems.append("_domain_ptr is not zero-initialised before the per-node counts are accumulated in it")
        if not pcount:
            problems.append("transposed render does not accumulate per-node counts in _domain_ptr")
        cidx = {e.idx_canon for e in pcount}
        if prefix is None:
            # a loop of a form the engine does not read (pointer cursor, data-dependent header) that writes through pointers / into the offsets
            # may be the prefix sum in another spelling: then nothing is decided
            odd = [lp for lp, evs, endev in r.passes if (lp.kind == "while" or getattr(lp, "hi", 0) is None or lp.kind not in ("range", "down", "adj", "seg", "foreach"))
                   and any(e.kind in ("deref-write", "cursor-write", "sub-untracked", "opaque-write") or (e.kind == "sub" and e.mode == "write" and e.arr.key == P) for e in evs)]
            if odd or elsewhere(fk, (P,), names=NAMES):
                unclear.append("no prefix-sum loop recognised, but the loop %s writes through pointers / %s" % (odd[0].canon if odd else "-", elsewhere(fk, (P,), names=NAMES) or "into the offsets"))
            else:
                problems.append("no prefix-sum loop turns the per-node counts into offsets")
        else:
            pe = [e for e in prefix[1] if e.kind == "sub" and e.arr.key == P and e.mode == "write"]
            lp = prefix[0]
            if lp.kind != "range" or lp.hi is None:
                unclear.append("the bounds of the prefix-sum loop %s are not size expressions" % lp.canon)
            okp = (len(pe) == 1 and pe[0].idx_canon == "($0 + 1)" and lp.kind == "range" and lp.lo == 0 and pext is not None and lp.hi is not None
                   and fk.norm(lp.hi) + 1 == pext and len(pe[0].frames) == 1
                   and ((pe[0].op == "+=" and pe[0].val_canon == "%s[$0]" % P) or
                        (pe[0].op == "=" and pe[0].val_canon in ("(%s[($0 + 1)] + %s[$0])" % (P, P), "(%s[$0] + %s[($0 + 1)])" % (P, P)))))
            if not okp:
                problems.append("the prefix-sum loop is not `_domain_ptr[i+1] += _domain_ptr[i]` for i over [0,%r) (found %s over %s)" % (
                    (pext - 1) if pext is not None else None, ", ".join("%s[%s] %s %s" % (P, e.idx_canon, e.op, e.val_canon) for e in pe), lp.canon))
            if not (count_pass[2].seq < prefix[1][0].seq and prefix[2].seq <= fill_pass[1][0].seq + 10 ** 9 and prefix[2].seq < fill_pass[1][0].seq):
                problems.append("the prefix sum is not between the counting and the filling pass")
        # cursor array
        if cursor_init is None:
            # the offsets themselves may serve as fill cursors; then they have to be restored (shifted back) afterwards
            used = [e for e in fill_pass[1] if e.kind == "sub" and e.arr.key == P and e.mode == "write"]
            after = [e for e in fk.events if e.kind == "sub" and e.arr.key == P and e.mode == "write" and e.seq > fill_pass[2].seq]
            if used and not after:
                problems.append("the offsets are advanced as fill cursors (line %s) and never restored: every list start ends up at its list end" % used[0].node.get("l"))
            elif used:
                unclear.append("offsets used as fill cursors with a later restoring loop: shift-back idiom not modelled")
            else:
                unclear.append("fill cursor not recognised (no cursor array initialised from the offsets)")
        else:
            ce = [e for e in cursor_init[1] if e.kind == "cursor-array-init"]
            lp = cursor_init[0]
            if lp.kind != "range" or lp.hi is None:
                unclear.append("the bounds of the cursor initialisation loop %s are not size expressions" % lp.canon)
            def target_ok(c0):
                if c0.target is not None:
                    return c0.target.key == I
                # index form: the positions subscript _image_idx through a reference to the selected entry
                return all(e.kind == "sub" and strip(e.idx).get("k") == "Ref" and fk.cursor.get(strip(e.idx).get("d"), {}).get("via") == c0.arr.key for e in writes_f) and bool(writes_f)
            okc = (len(ce) == 1 and ce[0].sel_canon == "$0" and ce[0].start_canon == "%s[$0]" % P and target_ok(ce[0]) and lp.kind == "range" and lp.lo == 0
                   and lp.hi is not None and pext is not None and fk.norm(lp.hi) + 1 == pext and ce[0].arr.extent is not None and fk.norm(ce[0].arr.extent) + 1 == pext)
            if not okc:
                problems.append("the fill cursors are not initialised as cursor[i] = &_image_idx[_domain_ptr[i]] for all i in [0,%r)" % ((pext - 1) if pext is not None else None))
            if prefix is not None and ce and cursor_init[0] is not prefix[0] and not (prefix[2].seq < ce[0].seq):
                # (in a merged loop `P[i+1] += P[i]; cursor[i] = &I[P[i]]` the offset P[i] is final when iteration i starts)
                problems.append("fill cursors are taken before the prefix sum")
            sel = [e for e in fill_pass[1] if e.kind == "cursor-sel"]
            want = {"(%s + 1)" % e.sel_canon for e in sel}
            if len(sel) != 1 or want != cidx:
                problems.append("adjacencies are counted for node %s but stored through the cursor of node %s" % (
                    ", ".join(sorted(x for x in cidx)), ", ".join(sorted(e.sel_canon for e in sel))))
        last_def = prefix[2].seq if prefix is not None else count_pass[2].seq
    # offsets are final: no write to P after they are defined
    late = [e for e in fk.events if e.kind == "sub" and e.arr.key == P and e.mode == "write" and e.seq > last_def]
    if late and r.role == "transposed" and cursor_init is None:
        late = []          # judged above (offsets used as cursors)
    if late:
        problems.append("_domain_ptr is modified after the offsets are final (line %s) and not restored" % late[0].node.get("l"))
    # total: extent of the index array is the total count
    ia = [e for e in fk.events if e.kind == "alloc" and e.arr.key == I]
    if len(ia) != 1:
        problems.append("_image_idx is allocated %d times" % len(ia))
    else:
        a = ia[0]
        xe = strip(getattr(a.arr, "extent_expr", None))
        okt = False
        xsub = _subscript(xe) if xe is not None and xe.get("k") != "Cast" else None
        if xsub is not None and r.role == "transposed":
            # allocated directly with the terminal offset P[D] after the prefix sum
            xa = fk.array_of(xsub[0])
            xr = fk.rng(xsub[1])
            if xa is not None and xa.key == P and isinstance(xr, Rng) and xr.exact is not None and pext is not None and fk.norm(xr.exact) + 1 == pext \
                    and prefix is not None and a.seq > prefix[2].seq:
                okt = True
        elif xe is not None and xe.get("k") == "Ref" and xe.get("dk") == "local":
            d = xe["d"]
            if d in counters and a.seq > count_pass[2].seq:
                # counter incremented exactly once per counted adjacency
                incs = [e for e in fk.events if e.kind == "scalar" and e.var == d and e.op != "=" or (e.kind == "scalar" and e.var == d and e.seq > count_pass[1][0].seq)]
                inc_ctx = {frames_key(e.frames[1:]) for e in incs if e.frames}
                stray = [e for e in incs if not e.frames or e.op != "++"]
                if inc_ctx == ctx_c and not stray and len(incs) == 1:
                    okt = True
            else:
                # assigned from P[D] after the prefix sum
                asg = [e for e in fk.events if e.kind == "scalar" and e.var == d and e.op == "=" and e.seq < a.seq]
                if asg:
                    v = asg[-1]
                    sub = _subscript(v.val)
                    if sub is not None and not v.frames:
                        arr = fk.array_of(sub[0])
                        rr = fk.rng(sub[1])
                        if arr is not None and arr.key == P and isinstance(rr, Rng) and rr.exact is not None and pext is not None and fk.norm(rr.exact) + 1 == pext \
                                and prefix is not None and v.seq > prefix[2].seq:
                            okt = True
        if not okt:
            problems.append("the extent of _image_idx (%s) is not the total number of counted adjacencies" % getattr(a.arr, "extent_canon", "?"))
        if a.seq > fill_pass[1][0].seq:
            problems.append("_image_idx is allocated after the filling pass started")
    if pext is None:
        unclear.append("extent of _domain_ptr is not a size expression")
    if unclear:
        ck.incomplete("E3.offsets", "%s: %s" % (name, "; ".join(unclear)))
    else:
      ck.ob("E3.offsets", name, not problems, "; ".join(problems) if problems else
            ("offsets: running count stored per node + terminal offset; fill cursor starts at _domain_ptr[node]; |_image_idx| = total count" if r.role == "plain" else
             "offsets: zero-initialised counts, prefix sum over the full extent, cursor array over all nodes, count node = store node; |_image_idx| = total count"),
            fn.file, fill_pass[0].node.get("l"))

    # ---- stored values are image nodes of the result ---------------------------------------------------
    img = fk.fields.get("this._num_nodes_image")
    problems = []
    vk_unclear = [e for e in writes_f if not isinstance(e.val_rng, Rng)]
    if img is None or vk_unclear:
        ck.incomplete("E2.value-kind", "%s: kind of the stored value %s / of _num_nodes_image not evaluable" % (name, ", ".join(render(e.val) for e in vk_unclear) or "-"))
        writes_f_vk = []
    else:
        writes_f_vk = writes_f
    for e in writes_f_vk:
        vr = e.val_rng
        if not fk.within(vr, img):
            problems.append("stored value %s has kind %r, the result's image nodes are [0,%r)" % (render(e.val), vr, fk.norm(img) if img is not None else None))
    if writes_f_vk:
      ck.ob("E2.value-kind", name, not problems and bool(writes_f), "; ".join(problems) if problems else
            "stored values %s in %r = image nodes of the result [0,%r)" % (", ".join(render(e.val) for e in writes_f), writes_f[0].val_rng if writes_f else None, fk.norm(img)),
            fn.file, writes_f[0].node.get("l") if writes_f else fn.line)

    # ---- mask protocol of the duplicate filter ------------------------------------------------------------
    if r.injectifying:
        for pname, ps in (("count", count_pass), ("fill", fill_pass)):
            mask_reset(w, r, pname, ps)


def mask_reset(w, r, pname, ps):
    ck = w.ck
    fk = r.fk
    fn = r.fn
    name = "%s/%s-pass" % (short(fn), pname)
    lp, evs, endev = ps
    problems = []
    tests = [e for e in evs if e.kind == "if" and mask_test(e.canon) and mask_test(e.canon)[0] in r.masks]
    if len(tests) != 1:
        ck.ob("E3.mask-reset", name, False, "%d duplicate tests `mask[x] == 0` in the pass (expected one)" % len(tests), fn.file, lp.node.get("l"))
        return
    t = tests[0]
    mask, x = mask_test(t.canon)
    marr = fk.arrs.get(mask)
    if not (marr is not None and marr.zero and marr.extent is not None):
        problems.append("mask %s is not zero-initialised with a known extent" % mask)
    tf = frames_key(t.frames[1:])
    # inside the test: mask[x] = 1
    sets = [e for e in evs if e.kind == "sub" and e.arr.key == mask and e.mode == "write" and e.val_canon == "1" and e.idx_canon == x
            and frames_key(e.frames[1:-1]) == tf and e.frames[-1].kind == "if" and e.frames[-1].branch == "then" and e.frames[-1].node is t.node]
    if len(sets) != 1:
        problems.append("the first visit does not mark %s[%s] = 1 inside the test" % (mask, x))
    # reset: after the marking nest, same loop nest, unconditional mask[x] = 0
    resets = [e for e in evs if e.kind == "sub" and e.arr.key == mask and e.mode == "write" and e.val_canon == "0"]
    okr = [e for e in resets if e.idx_canon == x and frames_key(e.frames[1:]) == tf and e.seq > t.seq and all(f.kind == "loop" for f in e.frames)
           and e.frames[1].node is not t.frames[1].node] if len(t.frames) > 1 else []
    if len(okr) != 1 or len(resets) != 1:
        problems.append("after the adjacencies of a node were visited the mask is not reset by `%s[%s] = 0` over the same loop nest [%s] (found %s)" % (
            mask, x, tf, "; ".join("%s[%s]=0 under [%s]" % (mask, e.idx_canon, frames_key(e.frames[1:])) for e in resets) or "no reset"))
    other = [e for e in evs if e.kind == "sub" and e.arr.key == mask and e.mode == "write" and e not in sets and e not in resets]
    if other:
        problems.append("other writes to the mask")
    vob(ck, fk, tuple(r.masks), NAMES, "E3.mask-reset", name, not problems, "; ".join(problems) if problems else
          "test %s[%s]==0 / mark =1 / reset =0 over the identical loop nest [%s] in every outer iteration; mask zero-initialised over %r" % (mask, x, tf, fk.norm(marr.extent)),
          fn.file, t.node.get("l"))


# -------------------------------------------------------------------------------------------------
# coverage of the remaining output arrays
# -------------------------------------------------------------------------------------------------

def one(w, qn_re, file_re=None, params=None):
    c = [fn for fn in w.find(qn_re, file_re) if params is None or [p["n"] for p in fn.params] == params]
    return c


def rule_coverage_misc(w):
    ck = w.ck
    targets = [
        (r"Graph::Graph$", ["num_nodes_domain", "num_nodes_image", "num_indices_image", "domain_ptr", "image_idx"], ["this._domain_ptr", "this._image_idx"]),
        (r"Graph::Graph$", ["other", "domain_perm", "image_perm"], ["this._domain_ptr"]),
        (r"Graph::Graph$", ["buffer"], ["this._domain_ptr", "this._image_idx"]),
        (r"Coloring::create_partition_graph$", [], ["graph._domain_ptr"]),
        (r"Coloring::Coloring$", ["graph"], ["this._coloring"]),
        (r"Coloring::Coloring$", ["graph", "order"], ["this._coloring"]),
        (r"Coloring::Coloring$", ["num_nodes", "coloring"], ["this._coloring"]),
        (r"CuthillMcKee::compute$", ["layers", "graph", "reverse", "r_type", "s_type"], ["node_degree"]),
        (r"Permutation::Permutation$", ["num_entries", "random"], ["this._swap_pos"]),
        (r"Permutation::calc_swap_from_perm$", [], ["this._swap_pos"]),
        (r"Permutation::calc_perm_from_swap$", [], ["this._perm_pos"]),
    ]
    for qre, params, keys in targets:
        fns = one(w, qre, r"kernel/adjacency/", params)
        if not fns:
            ck.incomplete("E2.coverage", "anchor %s(%s) not found" % (qre, ",".join(params)))
            continue
        fn = fns[0]
        fk = w.fk(fn)
        for key in keys:
            base = ()
            for e in fk.events:
                if e.kind == "alloc" and e.arr.key == key:
                    base = tuple(e.frames)
            ok, detail = coverage(fk, key, base_frames=base)
            if ok is None:
                ck.incomplete("E2.coverage", "%s: %s" % (short_noinst(fn), detail))
            else:
                vob(ck, fk, (key,), NAMES, "E2.coverage", "%s/%s" % (short_noinst(fn), key), ok, detail, fn.file, fn.line)


# -------------------------------------------------------------------------------------------------
# Permutation
# -------------------------------------------------------------------------------------------------

PERM_TABLE = {
    # ConstrType -> (set of (array, index, value), loop forms, finaliser)      [permutation.hpp, documentation of the constructor]
    "none": (set(), None),
    "identity": ({("this._perm_pos", "$0", "$0"), ("this._swap_pos", "$0", "$0")}, None),
    "perm": ({("this._perm_pos", "$0", "v[$0]")}, "calc_swap_from_perm"),
    "inv_perm": ({("this._perm_pos", "v[$0]", "$0")}, "calc_swap_from_perm"),
    "swap": ({("this._swap_pos", "$0", "v[$0]")}, "calc_perm_from_swap"),
    "inv_swap": ({("this._perm_pos", "$0", "$0"),
                  ("this._perm_pos", "($0 - 1)", "this._perm_pos[v[($0 - 1)]]"),
                  ("this._perm_pos", "v[($0 - 1)]", "this._perm_pos[($0 - 1)]")}, "calc_swap_from_perm"),
}


def rule_permutation(w):
    ck = w.ck
    fns = one(w, r"Permutation::Permutation$", None, ["num_entries", "constr_type", "v"])
    if not fns:
        ck.incomplete("E13.perm-dispatch", "Permutation(num_entries, constr_type, v) not found")
    else:
        fn = fns[0]
        fk = w.fk(fn)
        arms = {}
        for e in fk.events:
            cs = [f for f in e.frames if f.kind == "case"]
            if cs:
                arms.setdefault(id(cs[-1].node), (cs[-1], []))[1].append(e)
            elif e.kind == "case":
                pass
        seen_labels = set()
        n = Lin.atom("num_entries")
        for fr, evs in arms.values():
            for lab in fr.labels:
                if lab == "default":
                    continue
                ename = lab.rsplit("::", 1)[-1]
                seen_labels.add(ename)
                key = "Permutation(num_entries,constr_type,v)/%s" % ename
                if ename not in PERM_TABLE:
                    ck.incomplete("E13.perm-dispatch", "construction type %s has no table entry" % ename)
                    continue
                want, fin = PERM_TABLE[ename]
                want_alt = None
                if ename == "inv_swap":
                    # the same reverse transpositions with the position itself as loop variable (k = n-2 .. 0) instead of i-1 (i = n-1 .. 1)
                    want_alt = {(a, i.replace("($0 - 1)", "$0"), v.replace("($0 - 1)", "$0")) for a, i, v in want}
                writes = [e for e in evs if e.kind == "sub" and e.mode == "write" and e.arr.key in ("this._perm_pos", "this._swap_pos")]
                got = {(e.arr.key, e.idx_canon, e.val_canon) for e in writes}
                problems = []
                unclear = []
                if fk.unknown:
                    unclear.append("; ".join(x[0] for x in fk.unknown))
                for e in evs:
                    if e.kind == "call" and e.obj == "this" and e.name not in ("calc_swap_from_perm", "calc_perm_from_swap", "size") and not (e.callee or "").startswith("std::"):
                        unclear.append("arm calls %s, whose effect on the arrays is not modelled" % e.name)
                for e in writes:
                    for f in e.frames:
                        if f.kind == "loop" and (f.loop is None or f.loop.kind not in ("range", "down") or getattr(f.loop, "hi", None) is None):
                            unclear.append("assignment %s[%s] in the loop %s whose bounds are not size expressions" % (e.arr.key, e.idx_canon, f.canon))
                if unclear:
                    ck.incomplete("E13.perm-dispatch", "%s: %s" % (key, "; ".join(unclear)))
                    continue
                shifted = want_alt is not None and got == want_alt
                if got != want and not shifted:
                    problems.append("assignments {%s} differ from the documented conversion {%s}" % (
                        "; ".join("%s[%s] = %s" % x for x in sorted(got - want)) or "-", "; ".join("%s[%s] = %s" % x for x in sorted(want - got)) or "-"))
                for e in writes:
                    lps = [f.loop for f in e.frames if f.kind == "loop"]
                    if len(lps) != 1 or lps[0] is None:
                        problems.append("assignment %s[%s] not in a single loop" % (e.arr.key, e.idx_canon))
                        continue
                    lp = lps[0]
                    if lp.kind == "range":
                        if not (lp.lo == 0 and lp.hi is not None and fk.norm(lp.hi) == n):
                            problems.append("loop %s does not cover [0,num_entries)" % lp.canon)
                    elif lp.kind == "down":
                        # i runs n-1 .. 1, the subscripts use i-1: positions n-2 .. 0 (the last swap position is a fixed point by definition)
                        okd = (lp.lo == 0 and fk.norm(lp.hi) == n - 1) if shifted else (lp.lo == 1 and fk.norm(lp.hi) in (n, n + 1))
                        if not okd:
                            problems.append("count-down loop %s does not visit the positions num_entries-2 .. 0" % lp.canon)
                    if any(f.kind == "if" for f in e.frames):
                        problems.append("assignment %s[%s] is conditional" % (e.arr.key, e.idx_canon))
                if ename == "inv_swap" and len(writes) == 3:
                    # t = P[a]; P[a] = P[b]; P[b] = t  -- the saved element is the one overwritten first, and the last store uses the saved copy
                    sw = sorted([e for e in writes if any(f.loop is not None and f.loop.kind == "down" for f in e.frames if f.kind == "loop")], key=lambda e: e.seq)
                    if len(sw) == 2:
                        v2 = strip(sw[1].val)
                        pos = "$0" if shifted else "($0 - 1)"
                        saved_ok = v2.get("k") == "Ref" and v2.get("dk") == "local" and sw[0].idx_canon == pos and sw[1].val_canon == "this._perm_pos[%s]" % pos
                        if not saved_ok:
                            problems.append("the swap does not go through a saved copy of the element that is overwritten first")
                    idl = [e for e in writes if e.idx_canon == "$0" and e not in sw]
                    if idl and sw and not idl[0].seq < sw[0].seq:
                        problems.append("identity initialisation does not precede the swapping")
                calls = [e for e in evs if e.kind == "call" and e.obj == "this" and e.name in ("calc_swap_from_perm", "calc_perm_from_swap")]
                if fin is None:
                    if calls:
                        problems.append("unexpected call of %s" % calls[0].name)
                else:
                    okf = [e for e in calls if e.name == fin and not [f for f in e.frames if f.kind in ("loop", "if")] and (not writes or e.seq > max(x.seq for x in writes))]
                    if len(okf) != 1 or len(calls) != 1:
                        problems.append("the arm does not finish with exactly one %s() after its assignments (calls: %s)" % (fin, ", ".join(e.name for e in calls) or "none"))
                if ename in ("none", "identity"):
                    if not any(e.kind == "return" for e in evs):
                        problems.append("arm does not return (falls through to the input-array conversions)")
                vob(ck, fk, ("this._perm_pos", "this._swap_pos"), NAMES, "E13.perm-dispatch", key, not problems, "; ".join(problems) if problems else "%s: %s%s" % (
                    ename, "; ".join("%s[%s] = %s" % x for x in sorted(got)) or "no assignment", (" then %s()" % fin) if fin else ""), fn.file, fr.node.get("l"))
        for ename in PERM_TABLE:
            if ename not in seen_labels:
                ck.ob("E13.perm-dispatch", "Permutation(num_entries,constr_type,v)/%s" % ename, False, "no case for construction type %s" % ename, fn.file, fn.line)
    # inverse() / clone()
    for name, ctype in (("inverse", "inv_perm"), ("clone", "perm")):
        fns = one(w, r"Permutation::%s$" % name)
        if not fns:
            ck.incomplete("E13.perm-dispatch", "Permutation::%s not found" % name)
            continue
        fn = fns[0]
        fk = w.fk(fn)
        problems = []
        unclear_r = []
        found = 0
        # returned values: the expression of every return, both arms of a returned conditional expression
        rvals = []
        for node, fields, arrs in fk.returns:
            if node is None:
                continue
            stack = [strip(node.get("e"))]
            while stack:
                e = stack.pop()
                while e is not None and e.get("k") in ("Construct", "TempObj") and len(e.get("a", [])) == 1 and strip(e["a"][0]).get("k") in ("Construct", "TempObj", "Cond"):
                    e = strip(e["a"][0])
                if e is not None and e.get("k") == "Cond":
                    stack += [strip(e["then"]), strip(e["else"])]
                else:
                    rvals.append(e)
        for e in rvals:
            if e is None or e.get("k") not in ("Construct", "TempObj"):
                # a value built some other way (named local, helper): not read by this rule
                unclear_r.append("returned value %s is not a directly constructed Permutation" % (render(e)[:50] if e is not None else "?"))
                continue
            args = e.get("a", [])
            if len(args) == 0:
                continue
            found += 1
            if len(args) != 3:
                problems.append("constructor called with %d arguments" % len(args))
                continue
            sz = fk.size(args[0])
            if sz is None or fk.norm(sz) != fk.norm(Lin.atom("size(this._perm_pos)")):
                problems.append("length argument %s is not this->size()" % render(args[0]))
            en = strip(args[1])
            if (en.get("qn") or en.get("n") or "").rsplit("::", 1)[-1] != ctype:
                problems.append("construction type is %s, %s() needs ConstrType::%s" % (render(en), name, ctype))
            arr = fk.array_of(args[2])
            if arr is None or arr.key != "this._perm_pos":
                problems.append("input array is %s, not the permute-position array" % render(args[2]))
        if unclear_r and not problems:
            ck.incomplete("E13.perm-dispatch", "Permutation::%s(): %s" % (name, "; ".join(unclear_r)))
            continue
        if found != 1:
            problems.append("%d non-trivial returns" % found)
        ck.ob("E13.perm-dispatch", "Permutation::%s()" % name, not problems, "; ".join(problems) if problems else
              "%s() = Permutation(size(), ConstrType::%s, _perm_pos)" % (name, ctype), fn.file, fn.line)

    # ---- apply(y, x, invert): gather / scatter duality ----------------------------------------------
    obs = {}
    for fn in one(w, r"Permutation::apply$"):
        fk = w.fk(fn)
        pn = [p["n"] for p in fn.params]
        odd = [e.loop.canon for e in fk.events if e.kind == "loop-end" and (e.loop.kind not in ("range", "down") or getattr(e.loop, "hi", None) is None)]
        if fk.unknown or odd:
            ck.incomplete("E2.perm-forms", "%s: loops not modelled (%s)" % (short(fn), "; ".join([x[0] for x in fk.unknown] + odd)))
            obs.setdefault("Permutation::apply(%s)" % ",".join(pn), [])
            continue
        if pn == ["y", "x", "invert"]:
            problems = []
            wr = [e for e in fk.events if e.kind == "sub" and e.mode == "write" and e.arr.key == "y"]
            fwd = inv = None
            unclear = []

            def decisions(frames):
                """if-frames that decide something: the else side of `if(c) return;` (a shortcut for a special case) is not a decision"""
                return [f for f in frames if f.kind == "if" and not (f.branch == "else" and norm_c12._leaves_function(f.node.get("then"))
                                                                     and norm_c12.bool_polarity(f.node.get("c"), name="invert") is None)]
            for e in wr:
                ifs = decisions(e.frames)
                pol = norm_c12.bool_polarity(ifs[0].node.get("c"), name="invert") if len(ifs) == 1 else None
                if len(ifs) != 1 or pol is None:
                    # a decision in another spelling (ternary, several conditions, no branch at all): not read by this rule
                    unclear.append("store y[%s] is not under a single branch on `invert` (%s)" % (e.idx_canon, " && ".join(f.canon for f in ifs) or "unconditional"))
                    continue
                forward = (pol == -1) == (ifs[0].branch == "then")
                lps = [f.loop for f in e.frames if f.kind == "loop"]
                if len(lps) != 1 or lps[0] is None or lps[0].kind != "range" or lps[0].lo != 0 or lps[0].hi is None or \
                        fk.norm(lps[0].hi) != fk.norm(Lin.atom("size(this._perm_pos)")):
                    problems.append("loop %s does not cover [0,size())" % (lps[0].canon if lps and lps[0] is not None else "?"))
                if forward:
                    fwd = (e.idx_canon, e.val_canon)
                else:
                    inv = (e.idx_canon, e.val_canon)
            if unclear or (not wr and elsewhere(fk, ("y",), names=NAMES)):
                ck.incomplete("E2.perm-forms", "%s: %s" % (short(fn), "; ".join(unclear) or elsewhere(fk, ("y",), names=NAMES)))
                obs.setdefault("Permutation::apply(%s)" % ",".join(pn), [])
                continue
            if fwd != ("$0", "x[this._perm_pos[$0]]"):
                problems.append("forward application is %s, documented y[i] = x[perm_pos[i]]" % (("y[%s] = %s" % fwd) if fwd else "missing"))
            if inv != ("this._perm_pos[$0]", "x[$0]"):
                problems.append("inverse application is %s; the inverse of the forward gather is the scatter y[perm_pos[i]] = x[i]" % (("y[%s] = %s" % inv) if inv else "missing"))
            obs.setdefault("Permutation::apply(y,x,invert)", []).append((not problems, "; ".join(problems) if problems else
                                                                       "forward y[i] = x[perm_pos[i]], inverse y[perm_pos[i]] = x[i], both over [0,size())", fn.file, fn.line))
        elif pn == ["x", "invert"]:
            problems = []
            sw = [e for e in fk.events if e.kind == "sub" and e.arr.key == "this._swap_pos" and e.mode == "read"]
            by = {}
            unclear = []
            for e in sw:
                ifs = [f for f in e.frames if f.kind == "if" and norm_c12.bool_polarity(f.node.get("c"), name="invert") is not None]
                lps = [f.loop for f in e.frames if f.kind == "loop"]
                if len(ifs) != 1 or len(lps) != 1 or lps[0] is None:
                    unclear.append("swap position %s is read outside a single branch on `invert` / a single loop" % e.idx_canon)
                    continue
                forward = (norm_c12.bool_polarity(ifs[0].node.get("c"), name="invert") == -1) == (ifs[0].branch == "then")
                by["fwd" if forward else "inv"] = (lps[0], e)
            n = fk.norm(Lin.atom("size(this._perm_pos)"))
            if unclear or (not sw and elsewhere(fk, ("x", "this._swap_pos"), names=NAMES)):
                ck.incomplete("E2.perm-forms", "%s: %s" % (short(fn), "; ".join(unclear) or elsewhere(fk, ("x", "this._swap_pos"), names=NAMES)))
                obs.setdefault("Permutation::apply(%s)" % ",".join(pn), [])
                continue
            if "fwd" in by:
                lp, e = by["fwd"]
                if not (lp.kind == "range" and lp.lo == 0 and isinstance(e.rng, Rng) and e.rng.lo == 0 and fk.norm(e.rng.hi) in (n, n - 1) and e.idx_canon == "$0"):
                    problems.append("forward swapping does not run ascending over the swap positions [0,size()-1) (%s)" % lp.canon)
            else:
                problems.append("no forward branch")
            if "inv" in by:
                lp, e = by["inv"]
                if not (lp.kind == "down" and isinstance(e.rng, Rng) and e.rng.lo == 0 and fk.norm(e.rng.hi) in (n, n - 1)):
                    problems.append("inverse swapping does not run descending over the same swap positions (%s, positions %r)" % (lp.canon, e.rng))
            else:
                problems.append("no inverse branch")
            # both branches perform the same transposition x[p] <-> x[swap_pos[p]]
            for nm in ("fwd", "inv"):
                if nm not in by:
                    continue
                lp, e = by[nm]
                pcan = e.idx_canon
                ws = [x for x in fk.events if x.kind == "sub" and x.arr.key == "x" and x.mode == "write" and any(f.loop is lp for f in x.frames if f.kind == "loop")]
                got = sorted((x.idx_canon, x.val_canon) for x in ws)
                want = sorted([(pcan, "x[this._swap_pos[%s]]" % pcan), ("this._swap_pos[%s]" % pcan, "x[%s]" % pcan)])
                if got != want:
                    problems.append("%s branch does not exchange x[p] and x[swap_pos[p]] (stores: %s)" % (nm, "; ".join("x[%s] = %s" % g for g in got)))
            obs.setdefault("Permutation::apply(x,invert)", []).append((not problems, "; ".join(problems) if problems else
                                                                     "forward: ascending transpositions x[p]<->x[swap_pos[p]], inverse: the same transpositions descending", fn.file, fn.line))
    for key, lst in sorted(obs.items()):
        if not lst:
            continue
        bad = [x for x in lst if not x[0]]
        pick = bad[0] if bad else lst[0]
        ck.ob("E2.perm-forms", key, not bad, pick[1], pick[2], pick[3])
    if len(obs) < 2:
        ck.incomplete("E2.perm-forms", "Permutation::apply overloads not instantiated by the driver")
    # concat
    for fn in one(w, r"Permutation::concat$"):
        fk = w.fk(fn)
        ws = [e for e in fk.events if e.kind == "sub" and e.mode == "write"]
        problems = []
        got_c = [(e.arr.key, e.idx_canon, e.val_canon) for e in ws]
        via_tmp = None
        if len(ws) == 1 and ws[0].arr.owner == "local" and ws[0].arr.fresh and got_c[0][1:] == ("$0", "p._perm_pos[this._perm_pos[$0]]"):
            # composed into a separate array that then becomes the position array: T[i] = p.perm_pos[perm_pos[i]]; _perm_pos = move(T)
            t = ws[0].arr
            handed = [e for e in fk.events if e.kind in ("obj-assign", "alloc") and e.seq > ws[0].seq and not e.frames and
                      ((e.kind == "obj-assign" and e.get("key") == "this._perm_pos" and fk.okey(e.rhs) == t.key) or
                       (e.kind == "alloc" and e.arr.key == "this._perm_pos" and getattr(e.arr, "copy_of", None) == t.key))]
            if handed and t.extent is not None and fk.norm(t.extent) == fk.norm(Lin.atom("size(this._perm_pos)")):
                via_tmp = t.key
        if via_tmp is None and got_c != [("this._perm_pos", "$0", "p._perm_pos[this._perm_pos[$0]]")]:
            problems.append("composition is %s, documented P3(x) = P1(P2(x)), i.e. perm_pos[i] = p.perm_pos[perm_pos[i]]" % "; ".join("%s[%s] = %s" % (e.arr.key, e.idx_canon, e.val_canon) for e in ws))
        for e in ws:
            lps = [f.loop for f in e.frames if f.kind == "loop"]
            if len(lps) != 1 or lps[0].kind != "range" or lps[0].lo != 0 or lps[0].hi is None or fk.norm(lps[0].hi) != fk.norm(Lin.atom("size(this._perm_pos)")):
                problems.append("loop does not cover [0,size())")
        calls = [e for e in fk.events if e.kind == "call" and e.name == "calc_swap_from_perm" and not e.frames and ws and e.seq > ws[-1].seq]
        if len(calls) != 1:
            problems.append("swap array is not recomputed by calc_swap_from_perm() after the composition")
        vob(ck, fk, ("this._perm_pos", "this._swap_pos"), NAMES, "E2.perm-forms", "Permutation::concat(p)", not problems, "; ".join(problems) if problems else
              "perm_pos[i] = p.perm_pos[perm_pos[i]] over [0,size()), then calc_swap_from_perm()", fn.file, fn.line)
    for fn in one(w, r"Permutation::calc_perm_from_swap$"):
        fk = w.fk(fn)
        ws = [e for e in fk.events if e.kind == "sub" and e.mode == "write"]
        calls = [e for e in fk.events if e.kind == "call" and e.name == "apply" and e.obj == "this" and not e.frames]
        problems = []
        if [(e.arr.key, e.idx_canon, e.val_canon) for e in ws] != [("this._perm_pos", "$0", "$0")]:
            problems.append("perm_pos is not initialised to the identity")
        okc = False
        for c in calls:
            a = c.node.get("a", [])
            arr = fk.array_of(a[0]) if a else None
            inv = strip(a[1]) if len(a) > 1 else None
            if arr is not None and arr.key == "this._perm_pos" and (inv is None or (inv.get("k") == "Bool" and not inv.get("v"))) and ws and c.seq > ws[-1].seq:
                okc = True
        if not okc:
            problems.append("the swaps are not applied (forward) to the identity in perm_pos")
        vob(ck, fk, ("this._swap_pos",), NAMES, "E2.perm-forms", "Permutation::calc_perm_from_swap()", not problems, "; ".join(problems) if problems else
              "perm_pos = identity, then forward in-situ application of the swaps to perm_pos", fn.file, fn.line)


# -------------------------------------------------------------------------------------------------
# Colouring
# -------------------------------------------------------------------------------------------------

def rule_coloring(w):
    ck = w.ck
    for params in (["graph"], ["graph", "order"]):
        fns = one(w, r"Coloring::Coloring$", None, params)
        if not fns:
            ck.incomplete("E7.greedy-colour", "Coloring(%s) not found" % ",".join(params))
            continue
        fn = fns[0]
        fk = w.fk(fn)
        name = "Coloring(%s)" % ",".join(params)
        if fk.unknown:
            ck.incomplete("E7.greedy-colour", "%s: %s" % (name, "; ".join(x[0] for x in fk.unknown)))
            continue
        C = "this._coloring"
        # the node loop: the top-level loop in which _coloring[node] receives a colour variable
        assigns = [e for e in fk.events if e.kind == "sub" and e.mode == "write" and e.arr.key == C and any(f.kind == "if" for f in e.frames)]
        if not assigns:
            ck.incomplete("E7.greedy-colour", "%s: colour assignment not found" % name)
            continue
        L0 = assigns[0].frames[0]
        nodes = {e.idx_canon for e in assigns}
        inl = [e for e in fk.events if e.frames and e.frames[0].node is L0.node]
        marks = [e for e in inl if e.kind == "sub" and e.mode == "write" and e.val_canon == "1" and e.arr.owner == "local"]
        # (1) marks come from the adjacency list of the node being coloured
        problems = []
        M = marks[0].arr.key if marks else None
        if len(marks) != 1:
            problems.append("%d mask marks in the node loop" % len(marks))
        else:
            m = marks[0]
            segs = [f for f in m.frames if f.kind == "loop" and f.loop is not None and f.loop.kind == "seg"]
            if len(segs) != 1:
                problems.append("the mark is not inside one adjacency-list loop")
            else:
                lp = segs[0].loop
                node = fk.canon(lp.node_expr) if False else lp.canon[len("seg(graph._domain_ptr,"):-1]
                if not lp.canon.startswith("seg(graph._domain_ptr,") or not lp.pair_ok:
                    problems.append("adjacency loop %s is not a segment of the graph's domain pointer" % lp.canon)
                if len(nodes) != 1 or node not in nodes:
                    problems.append("the mask is filled from the adjacency list of node %s but the colour is assigned to node %s" % (node, ", ".join(sorted(nodes))))
                want = "%s[graph._image_idx[$%d]]" % (C, lp.depth)
                if m.idx_canon != want:
                    problems.append("marked entry is %s[%s], not the colour of the neighbour %s" % (M, m.idx_canon, want))
        # the scan of the node's adjacency list is complete: no way out of the segment loop that depends on the ORDER of the list
        if len(marks) == 1:
            m0 = marks[0]
            sfr = [f for f in m0.frames if f.kind == "loop" and f.loop is not None and f.loop.kind == "seg"]
            if len(sfr) == 1:
                for x in fk.events:
                    if x.kind in ("break", "return") and any(f.node is sfr[0].node for f in x.frames) and \
                            not [f for f in x.frames[[id(g.node) for g in x.frames].index(id(sfr[0].node)) + 1:] if f.kind in ("loop", "case")]:
                        ifs = [f for f in x.frames if f.kind == "if"]
                        c0 = strip(ifs[-1].node.get("c")) if ifs else None
                        order_dep = False
                        if c0 is not None and c0.get("k") == "Bin" and c0.get("op") in ("<", "<=", ">", ">="):
                            for side in (c0["lhs"], c0["rhs"]):
                                a0 = fk.sub_arr(side) if _subscript(side) is not None else None
                                if a0 is not None and a0.key.endswith("._image_idx"):
                                    order_dep = True
                        if order_dep:
                            problems.append("the scan of the adjacency list is left by `%s` under %s (line %s): this assumes ascending adjacency lists, but graphs are not sorted in "
                                            "general (as_is / injectify renders, array constructors); neighbours behind the first larger index are never marked" % (
                                                x.kind, render(c0), x.node.get("l")))
                        else:
                            ck.incomplete("E7.greedy-colour", "%s/mask-from-node: `%s` out of the neighbour loop under %s: which neighbours are skipped is not evaluable" % (
                                name, x.kind, render(c0) if c0 is not None else "no condition"))
        vob(ck, fk, (M, C) if M else (C,), NAMES, "E7.greedy-colour", name + "/mask-from-node", not problems, "; ".join(problems) if problems else
              "mask %s[colour of neighbour] = 1 for the neighbours in the adjacency list of the node that receives the colour (%s)" % (M, ", ".join(nodes)), fn.file, marks[0].node.get("l") if marks else fn.line)
        if M is None:
            continue
        # (2) the mask is cleared over its extent in every node iteration before marking
        problems = []
        resets = [e for e in inl if e.kind == "sub" and e.mode == "write" and e.arr.key == M and e.val_canon == "0"]
        okr = False
        for e in resets:
            lps = [f.loop for f in e.frames[1:] if f.kind == "loop"]
            if len(e.frames) == 2 and len(lps) == 1 and lps[0].kind == "range" and lps[0].lo == 0 and lps[0].hi is not None and fk.arrs[M].extent is not None \
                    and fk.norm(lps[0].hi) == fk.norm(fk.arrs[M].extent) and e.idx_canon == "$1" and e.seq < marks[0].seq:
                okr = True
        if not okr:
            problems.append("mask %s is not reset to 0 over its whole extent %r at the start of each node iteration" % (M, fk.norm(fk.arrs[M].extent) if fk.arrs[M].extent is not None else None))
        vob(ck, fk, (M,), NAMES, "E7.greedy-colour", name + "/mask-reset", not problems, "; ".join(problems) if problems else "mask %s reset over [0,%r) before the neighbours are marked" % (M, fk.norm(fk.arrs[M].extent)),
              fn.file, resets[0].node.get("l") if resets else fn.line)
        # (3) the chosen colour is tested against the mask
        problems = []
        cvars = set()
        new_colour = 0
        for e in assigns:
            v = strip(e.val)
            if v.get("k") == "Ref" and v.get("dk") == "local":
                cvars.add(v["d"])
            elif fk.okey(v) == "this._num_colors":
                new_colour += 1
            else:
                problems.append("assigned colour %s is neither the chosen colour variable nor the new colour _num_colors" % render(v))
        if len(cvars) != 1:
            problems.append("%d chosen-colour variables" % len(cvars))
        else:
            cv = cvars.pop()
            sets = [e for e in inl if e.kind == "scalar" and e.var == cv and e.op == "="]
            cand = [e for e in sets if len(e.frames) > 1]
            sent = [e for e in sets if len(e.frames) == 1]
            if len(sent) != 1 or not (sent[0].seq > marks[0].seq):
                problems.append("the chosen colour is not reset to the 'none' sentinel after the neighbours were marked")
            if not cand:
                problems.append("no candidate colour is ever chosen")
            for e in cand:
                lps = [f for f in e.frames[1:] if f.kind == "loop"]
                ifs = [f for f in e.frames[1:] if f.kind == "if"]
                if len(lps) != 1 or lps[0].loop.kind != "range" or "this._num_colors" not in lps[0].loop.canon or e.val_canon != "$1":
                    problems.append("candidate %s is not the variable of a loop over the colours used so far" % e.val_canon)
                    continue
                tested = False
                for f in ifs:
                    if f.branch == "then" and _tests_unmarked(fk, f.node.get("c"), M, lps[0].loop.var, True):
                        tested = True
                    if f.branch == "else" and _tests_unmarked(fk, f.node.get("c"), M, lps[0].loop.var, False):
                        tested = True
                if not tested:
                    problems.append("candidate colour $1 is accepted without the test %s[$1] != 1 (colour not used by a neighbour)" % M)
            if sent and sent[0].val_canon:
                guard = [f for f in assigns[0].frames if f.kind == "if"]
                sentinel = sent[0].val_canon
                for e in assigns:
                    f = [x for x in e.frames if x.kind == "if"][-1]
                    v = strip(e.val)
                    uses_var = v.get("k") == "Ref"
                    is_ne = f.canon.replace(" ", "") in ("(%s!=%s)" % (sets[0].name, sentinel.replace(" ", "")),)
                    want_branch = "then" if is_ne else None
                    if f.canon.replace(" ", "") == "(%s==%s)" % (sets[0].name, sentinel.replace(" ", "")):
                        want_branch = "else"
                        is_ne = True
                    if not is_ne:
                        problems.append("colour assignment is not decided by comparing the chosen colour with the sentinel %s (condition %s)" % (sentinel, f.canon))
                    elif uses_var != (f.branch == want_branch):
                        problems.append("the branches of %s are swapped: %s is assigned when %s" % (f.canon, render(v), "a colour was found" if f.branch == want_branch else "no colour was found"))
        if new_colour != 1:
            problems.append("%d assignments of a new colour" % new_colour)
        else:
            e = [x for x in assigns if fk.okey(strip(x.val)) == "this._num_colors"][0]
            incs = [x for x in inl if x.kind == "field" and x.key == "this._num_colors" and x.get("op") == "++" and frames_key(x.frames) == frames_key(e.frames) and x.seq > e.seq]
            if len(incs) != 1:
                problems.append("_num_colors is not incremented once after a new colour was handed out")
        vob(ck, fk, (M, C), NAMES, "E7.greedy-colour", name + "/colour-choice", not problems, "; ".join(problems) if problems else
              "a used colour j is chosen only under %s[j] != 1; otherwise the new colour _num_colors is assigned and counted" % M, fn.file, assigns[0].node.get("l"))


def _tests_unmarked(fk, c, M, jvar, positive):
    """does the condition (taken as true if `positive`, as false otherwise) imply  M[j] is not marked (!= 1 / == 0)?"""
    c = strip(c)
    if c is None:
        return False
    k = c.get("k")
    if k == "Un" and c.get("op") == "!":
        return _tests_unmarked(fk, c["e"], M, jvar, not positive)
    if k == "Bin" and c.get("op") == "&&":
        return positive and (_tests_unmarked(fk, c["lhs"], M, jvar, True) or _tests_unmarked(fk, c["rhs"], M, jvar, True))
    if k == "Bin" and c.get("op") == "||":
        return (not positive) and (_tests_unmarked(fk, c["lhs"], M, jvar, False) or _tests_unmarked(fk, c["rhs"], M, jvar, False))

    def is_m(x):
        x = strip(x)
        sub = _subscript(x)
        if sub is None:
            return False
        a = fk.sub_arr(x)
        ix = strip(sub[1])
        return a is not None and a.key == M and ix.get("k") == "Ref" and ix.get("d") == jvar
    if is_m(c):
        return not positive          # `M[j]` true means marked
    if k == "Bin" and c.get("op") in ("==", "!="):
        l, r = strip(c["lhs"]), strip(c["rhs"])
        if is_m(r):
            l, r = r, l
        if is_m(l):
            v = fk.size(r)
            if v is not None and v.is_const():
                eq = (c["op"] == "==") == positive          # effective relation M[j] == v (True) or != v (False)
                if v.c == 1:
                    return not eq
                if v.c == 0:
                    return eq
    return False


# -------------------------------------------------------------------------------------------------
# Cuthill-McKee
# -------------------------------------------------------------------------------------------------

def rule_cuthill(w):
    ck = w.ck
    fns = one(w, r"CuthillMcKee::compute$", None, ["layers", "graph", "reverse", "r_type", "s_type"])
    if not fns:
        ck.incomplete("E7.cm-insert", "CuthillMcKee::compute(layers, graph, ...) not found")
        return
    fn = fns[0]
    fk = w.fk(fn)
    if fk.unknown:
        ck.incomplete("E7.cm-insert", "CuthillMcKee::compute: %s" % "; ".join(x[0] for x in fk.unknown))
        return
    PA = "perm._perm_pos"
    MASK = None
    MST = None
    ins = [e for e in fk.events if e.kind == "sub" and e.mode == "write" and e.arr.key == PA and e.op == "=" and not (e.val_canon or "").startswith(PA + "[")
           and not _is_perm_elem(fk, e.val, PA)]
    if len(ins) < 2:
        ck.incomplete("E7.cm-insert", "insertions into the permutation array not recognised (%d)" % len(ins))
    for e in ins:
        problems = []
        x = e.val_canon
        v = strip(e.val)
        what = "root" if not [f for f in e.frames if f.kind == "if"] else "neighbour"
        # the node is marked in the same block
        # the processed-mask: a local array with two states, `open` (its initial value) and `done` (the value stored when a node is entered)
        same = [m for m in fk.events if m.kind == "sub" and m.mode == "write" and m.arr.owner == "local" and m.arr.fresh and m.idx_canon == x and frames_key(m.frames) == frames_key(e.frames)
                and _mask_states(fk, m.arr) is not None and _cval(m.val_canon) == _mask_states(fk, m.arr)[1]]
        if len(same) != 1:
            problems.append("node %s is entered into the ordering but not marked as processed in the same block" % x)
        else:
            MASK = same[0].arr.key
            MST = _mask_states(fk, same[0].arr)
        if what == "neighbour":
            ifs = [f for f in e.frames if f.kind == "if" and f.branch == "then"]
            lvars = {f.loop.var: ("$it%d" if f.loop.kind == "adj" else "$%d") % f.loop.depth for f in e.frames if f.kind == "loop" and f.loop is not None and f.loop.var is not None}
            stn = {"mask": MASK, "states": MST if MASK else None, "idx": lambda n, x=x, lv=lvars: fk.canon(n, extra=lv) == x}
            if not (MASK and any(_unmarked_pol(fk, cj, stn) == 1 for f in ifs for cj in _conj19(f.node.get("c")))):
                problems.append("neighbour %s is entered without the test that %s[%s] is still unmarked" % (x, MASK, x))
            segs = [f for f in e.frames if f.kind == "loop" and f.loop is not None and f.loop.kind == "seg"]
            if not (len(segs) == 1 and segs[0].loop.pair_ok and segs[0].loop.canon.startswith("seg(graph._domain_ptr,%s[" % PA) and x == "graph._image_idx[$%d]" % segs[0].loop.depth):
                problems.append("the entered node is not an element of the adjacency list of an already ordered node")
        vob(ck, fk, tuple(k2 for k2, a2 in fk.arrs.items() if a2.owner == "local" and a2.fresh), NAMES, "E7.cm-insert", "CuthillMcKee::compute/%s" % what, not problems, "; ".join(problems) if problems else
              "%s %s: marked as processed in the block that stores it%s" % (what, x, ", stored only if unmarked and taken from the adjacency list of an ordered node" if what == "neighbour" else ""), fn.file, e.node.get("l"))
    # ---- root selection per RootType ---------------------------------------------------------------------
    roots = [e for e in ins if not [f for f in e.frames if f.kind == "if"]]
    rootvar = strip(roots[0].val)["d"] if roots and strip(roots[0].val).get("k") == "Ref" else None
    if rootvar is None or MASK is None:
        ck.incomplete("E13.root-total", "root variable / processed mask not recognised")
        return
    sel = {}
    for e in fk.events:
        if e.kind == "scalar" and e.var == rootvar and e.op == "=":
            cs = [f for f in e.frames if f.kind == "case"]
            if cs:
                sel.setdefault(id(cs[-1].node), (cs[-1], []))[1].append(e)
    # state in which the first unprocessed node is met: `root` still has its initial value (it is assigned only when a candidate is
    # accepted), the running best value its initialiser
    rinit = fk.size(fk.locals[rootvar].get("init")) if fk.locals.get(rootvar, {}).get("init") is not None else None
    in_arms = {id(e) for fr, evs in sel.values() for e in evs}
    stray = [e for e in fk.events if e.kind == "scalar" and e.var == rootvar and id(e) not in in_arms]
    for fr, evs in sel.values():
        for lab in fr.labels:
            ename = lab.rsplit("::", 1)[-1]
            problems, tot, unknown = [], [], []
            for e in evs:
                lps = [f for f in e.frames if f.kind == "loop" and f.loop is not None and f.loop.kind == "range"]
                ifs = [f for f in e.frames if f.kind == "if" and f.branch == "then"]
                if not lps or lps[-1].loop.hi is None:
                    unknown.append("the loop around the root candidate %s is not a counted loop" % e.val_canon)
                    continue
                if e.val_canon != "$%d" % lps[-1].loop.depth or lps[-1].loop.lo != 0 or fk.norm(lps[-1].loop.hi) != fk.norm(Lin.atom("Dom(graph)")):
                    problems.append("root candidate %s is not the variable of a loop over all nodes" % e.val_canon)
                    continue
                jvar = lps[-1].loop.var
                # variables holding the best value so far: assigned next to the root in the accepting branch, initialised before the loop
                best = {}
                for m in fk.events:
                    if m.kind == "scalar" and m.var != rootvar and m.op == "=" and frames_key(m.frames) == frames_key(e.frames):
                        v = fk.locals.get(m.var)
                        others = [x for x in fk.events if x.kind == "scalar" and x.var == m.var and frames_key(x.frames) != frames_key(e.frames)]
                        if v is not None and v.get("init") is not None and not others:
                            best[m.var] = fk.size(v["init"])
                st = {"root": rootvar, "rinit": rinit if not stray else None, "best": best, "j": jvar, "mask": MASK, "states": MST,
                      "idx": lambda n, jv=jvar: strip(n).get("k") == "Ref" and strip(n).get("d") == jv}
                conds = [f.node.get("c") for f in ifs]
                vals = [_eval_first(fk, c, st) for c in conds]
                guarded = any(_mentions_unmarked(fk, c, st) for c in conds)
                if not guarded:
                    problems.append("a node is accepted as root without the test !%s[j]" % MASK)
                val, why = _and([v for v in vals]) if vals else (True, [])
                if val is True:
                    pass
                elif val is None:
                    unknown.extend(why or ["selection condition %s not evaluable" % " && ".join(render(c) for c in conds)])
                else:
                    tot.extend(why)
            if unknown:
                ck.incomplete("E13.root-total", "CuthillMcKee::compute/%s: %s" % (ename, "; ".join(unknown)))
                continue
            ck.ob("E7.cm-root-guard", "CuthillMcKee::compute/%s" % ename, not problems, "; ".join(problems) if problems else
                  "root candidates of %s are taken from a loop over all nodes under !%s[j]" % (ename, MASK), fn.file, fr.node.get("l"))
            ck.ob("E13.root-total", "CuthillMcKee::compute/%s" % ename, not tot, ("at the first unprocessed node (root still %r) the selection condition can be false: " % rinit + "; ".join(tot)) if tot else
                  "%s: the selection condition holds at the first unprocessed node (root still has its initial value %r), so a root exists whenever a node is left" % (ename, rinit),
                  fn.file, fr.node.get("l"))
    # ---- finalisation ----------------------------------------------------------------------------------
    calls = [e for e in fk.events if e.kind == "call" and e.name == "calc_swap_from_perm" and e.obj == "perm" and not e.frames]
    writes_pa = [e for e in fk.events if e.kind == "sub" and e.mode == "write" and e.arr.key == PA]
    first_w = min([e.seq for e in writes_pa] or [10 ** 9])

    def ret_kind(rnode):
        """'ordering': the permutation the ordering was written into; 'empty': a fresh default-constructed Permutation (nothing was built, nothing to finalise)"""
        x = strip(rnode.get("e"))
        for _ in range(4):
            if x is not None and x.get("k") in ("Construct", "TempObj") and len(x.get("a", [])) == 1:
                x = strip(x["a"][0])
            elif x is not None and x.get("k") == "Call" and (x.get("callee") or "") in ("std::move", "std::forward") and x.get("a"):
                x = strip(x["a"][0])
        if x is None:
            return "other"
        if fk.okey(x) == "perm":
            return "ordering"
        if x.get("k") == "Ref" and x.get("dk") == "local" and not fk.mut.get(x.get("d")):
            # a named empty permutation: `Permutation none; return none;`
            v0 = fk.locals.get(x.get("d"))
            i0 = strip(v0.get("init")) if v0 is not None and v0.get("init") is not None else None
            used = [e for e in fk.events if e.kind == "call" and e.obj == x.get("n")]
            if i0 is not None and i0.get("k") in ("Construct", "TempObj") and re.search(r"Adjacency::Permutation::Permutation$", i0.get("callee") or "") and not i0.get("a") and not used:
                return "empty"
        if x.get("k") in ("Construct", "TempObj") and re.search(r"Adjacency::Permutation::Permutation$", x.get("callee") or "") and not x.get("a"):
            return "empty"
        return "other"
    rev = [e for e in fk.events if e.kind == "return"]
    kinds = [(ret_kind(e.node), e) for e in rev]
    unclear_f = []
    problems_f = []
    for kd, e in kinds:
        if kd == "empty":
            if e.seq > first_w:
                problems_f.append("an empty Permutation is returned at line %s after nodes were already entered into the ordering" % e.node.get("l"))
        elif kd == "ordering":
            okc = [c for c in calls if c.seq < e.seq and all(w_.seq < c.seq for w_ in writes_pa if w_.seq < e.seq)]
            if len(okc) != 1 or len(calls) != 1:
                problems_f.append("`return perm` at line %s is not preceded by exactly one calc_swap_from_perm() after the last store into the permutation array" % e.node.get("l"))
        else:
            unclear_f.append("the value returned at line %s (%s) is neither the ordering nor an empty Permutation" % (e.node.get("l"), render(strip(e.node.get("e")))[:50]))
    if not any(kd == "ordering" for kd, e in kinds):
        unclear_f.append("no return of the permutation the ordering is written into found")
    if unclear_f and not problems_f:
        ck.incomplete("E7.cm-finalise", "CuthillMcKee::compute: %s" % "; ".join(unclear_f))
    else:
        okf = not problems_f
        vob(ck, fk, ("perm",), NAMES, "E7.cm-finalise", "CuthillMcKee::compute", okf,
            "calc_swap_from_perm() is called once after the last store into the permutation array and before `return perm`%s" % (
                "; the early return of an empty Permutation (empty graph) precedes every store" if any(kd == "empty" for kd, e in kinds) else "") if okf else
            "the swap array of the returned permutation is not recomputed after the ordering was built: " + "; ".join(problems_f), fn.file, calls[0].node.get("l") if calls else fn.line)


def _is_perm_elem(fk, val, key):
    """value (through single-assignment locals) is itself an element of the permutation array: a move, not an insertion"""
    v = fk._resolve_local(val)
    sub = _subscript(v)
    if sub is not None:
        a = fk.array_of(sub[0])
        return a is not None and a.key == key
    return False


def _cval(c):
    """canonical spelling of a mask state"""
    c = (c or "").strip()
    c = {"true": "1", "false": "0", "'\\0'": "0"}.get(c, c)
    m = re.match(r"^\w[\w:]*\((\d+)\)$", c)          # char(1), Index(0)
    return m.group(1) if m else c


def _mask_states(fk, arr):
    """(open, done) of a two-state local mask array: open = the value it is filled with at its allocation, done = the one other value ever stored; None otherwise"""
    if arr is None or not arr.fresh:
        return None
    fill = getattr(arr, "fill", None)
    if fill is not None:
        op = _cval(fk.canon(fill))
    elif getattr(arr, "valueinit", False) or arr.zero:
        op = "0"
    else:
        return None
    vals = {_cval(e.val_canon) for e in fk.events if e.kind == "sub" and e.mode == "write" and e.arr is arr and e.op == "="}
    other = vals - {op}
    if len(other) != 1 or any(e.kind == "sub" and e.mode == "write" and e.arr is arr and e.op != "=" for e in fk.events):
        return None
    return op, other.pop()


def _conj19(c):
    c = strip(c)
    if c is not None and c.get("k") == "Bin" and c.get("op") == "&&":
        return _conj19(c["lhs"]) + _conj19(c["rhs"])
    return [c] if c is not None else []


def _unmarked_pol(fk, c, st):
    """+1: the condition is equivalent to `mask[idx] is in the open state` (!M[x], M[x] == open, M[x] != done, open == M[x]); -1: to `is done`; 0: neither"""
    c = strip(c)
    if c is None or not st.get("states"):
        return 0
    op, done = st["states"]

    def is_read(n):
        n = strip(n)
        while n is not None and n.get("k") == "MCall" and (n.get("n") or "").startswith("operator") and not n.get("a"):
            n = strip(n.get("obj"))
        while n is not None and n.get("k") in ("Construct", "TempObj") and len(n.get("a", [])) == 1:
            n = strip(n["a"][0])
        sub = _subscript(n) if n is not None else None
        if sub is None:
            return False
        a = fk.sub_arr(n)
        return a is not None and a.key == st["mask"] and st["idx"](sub[1])
    if c.get("k") == "Un" and c.get("op") == "!":
        return -_unmarked_pol(fk, c["e"], st)
    if is_read(c):
        return -1 if op == "0" else 0          # truthiness: non-zero = not open
    if c.get("k") == "Bin" and c.get("op") in ("==", "!="):
        l, r = c["lhs"], c["rhs"]
        if is_read(r):
            l, r = r, l
        if is_read(l):
            v = _cval(fk.canon(r))
            sign = 1 if c["op"] == "==" else -1
            if v == op:
                return sign
            if v == done:
                return -sign
    return 0


def _mask_read(fk, n, st):
    """n reads mask[j] (possibly through vector<bool>'s reference conversion)"""
    n = strip(n)
    while n is not None and n.get("k") == "MCall" and (n.get("n") or "").startswith("operator") and not n.get("a"):
        n = strip(n.get("obj"))
    sub = _subscript(n) if n is not None else None
    if sub is None:
        return False
    a = fk.sub_arr(n)
    ix = strip(sub[1])
    return a is not None and a.key == st["mask"] and ix.get("k") == "Ref" and ix.get("d") == st["j"]


def _mentions_unmarked(fk, c, st):
    c = strip(c)
    if c is None:
        return False
    if c.get("k") == "Un" and c.get("op") == "!" and _mask_read(fk, c["e"], st):
        return True
    if _unmarked_pol(fk, c, st) == 1:
        return True
    if c.get("k") == "Bin" and c.get("op") == "&&":
        return _mentions_unmarked(fk, c["lhs"], st) or _mentions_unmarked(fk, c["rhs"], st)
    return False


def _operand(fk, n, st):
    """('lin', Lin) for a value known in the first-candidate state, ('key',) for a per-node key (node degree: any value >= 0), None"""
    n = strip(n)
    if n is None:
        return None
    if n.get("k") == "Ref" and n.get("d") == st["root"]:
        return ("lin", fk.norm(st["rinit"])) if st["rinit"] is not None else None
    if n.get("k") == "Ref" and n.get("d") in st["best"]:
        b = st["best"][n["d"]]
        return ("lin", fk.norm(b)) if b is not None else None
    sub = _subscript(n)
    if sub is not None:
        ix = strip(sub[1])
        a = fk.sub_arr(n)
        if a is not None and a.key != st["mask"] and ix.get("k") == "Ref" and ix.get("d") == st["j"]:
            return ("key",)
        return None
    s = fk.size(n)
    if s is not None:
        return ("lin", fk.norm(s))
    return None


def _nonneg(lin):
    return lin.c >= 0 and all(v >= 0 for v in lin.t.values())


def _eval_first(fk, c, st):
    """three-valued truth of a selection condition at the first unprocessed node: (True | False | 'maybe' | None, reasons)"""
    c = strip(c)
    if c is None:
        return None, []
    k = c.get("k")
    pol = _unmarked_pol(fk, c, st)
    if pol == 1:
        return True, []              # the node considered is unprocessed
    if pol == -1:
        return False, ["the node is required to be processed already"]
    if k == "Un" and c.get("op") == "!":
        if _mask_read(fk, c["e"], st):
            return True, []          # the node considered is unprocessed
        v, why = _eval_first(fk, c["e"], st)
        return ({True: False, False: True}.get(v, v)), why
    if _mask_read(fk, c, st):
        return False, ["the node is required to be processed already"]
    if k == "Bin" and c.get("op") == "&&":
        return _and([_eval_first(fk, c["lhs"], st), _eval_first(fk, c["rhs"], st)])
    if k == "Bin" and c.get("op") == "||":
        vals = [_eval_first(fk, c["lhs"], st), _eval_first(fk, c["rhs"], st)]
        if any(v is True for v, w_ in vals):
            return True, []
        if any(v is None for v, w_ in vals):
            return None, [x for v, w_ in vals for x in w_ if v is None]
        return ("maybe" if any(v == "maybe" for v, w_ in vals) else False), [x for v, w_ in vals for x in w_]
    if k == "Bin" and c.get("op") in ("<", "<=", ">", ">=", "==", "!="):
        op = c["op"]
        l, r = _operand(fk, c["lhs"], st), _operand(fk, c["rhs"], st)
        if l is None or r is None:
            return None, ["comparison %s not evaluable in the first-candidate state" % render(c)]
        if l[0] == "lin" and r[0] == "key":
            l, r = r, l
            op = {"<": ">", "<=": ">=", ">": "<", ">=": "<=", "==": "==", "!=": "!="}[op]
        if l[0] == "lin" and r[0] == "lin":
            d = l[1] - r[1]
            table = {">=": (_nonneg(d), _nonneg(-d - 1)), ">": (_nonneg(d - 1), _nonneg(-d)), "<=": (_nonneg(-d), _nonneg(d - 1)), "<": (_nonneg(-d - 1), _nonneg(d)),
                     "==": (d == Lin.const(0), _nonneg(d - 1) or _nonneg(-d - 1)), "!=": (_nonneg(d - 1) or _nonneg(-d - 1), d == Lin.const(0))}
            t, f = table[op]
            if t:
                return True, []
            if f:
                return False, ["`%s` is false (%r vs %r)" % (render(c), l[1], r[1])]
            return None, ["`%s` (%r vs %r) not decidable" % (render(c), l[1], r[1])]
        if l[0] == "key" and r[0] == "lin":
            b = r[1]
            if op == ">=" and b == Lin.const(0):
                return True, []
            if op in (">", ">="):
                return "maybe", ["`%s` fails for a node whose degree is %s %r (e.g. an isolated node of degree 0)" % (render(c), "<=" if op == ">" else "<", b)]
            if op in ("<", "<="):
                return "maybe", ["`%s` fails for a node whose degree is %s %r (degrees exceed the node count when adjacencies are duplicated, see Graph::degree)" % (
                    render(c), ">=" if op == "<" else ">", b)]
            return "maybe", ["`%s` depends on the node's degree" % render(c)]
        return None, ["comparison %s between two per-node keys" % render(c)]
    return None, ["condition %s not evaluable" % render(c)[:80]]


def _and(vals):
    if any(v is False for v, w_ in vals):
        return False, [x for v, w_ in vals for x in w_ if v is False]
    if any(v is None for v, w_ in vals):
        return None, [x for v, w_ in vals for x in w_ if v is None]
    if all(v is True for v, w_ in vals):
        return True, []
    return "maybe", [x for v, w_ in vals for x in w_ if v == "maybe"]


# -------------------------------------------------------------------------------------------------
# serialisation layout (writer Graph::serialize vs reader Graph(buffer)), sort_indices
# -------------------------------------------------------------------------------------------------

def rule_serial(w):
    ck = w.ck
    wr = one(w, r"Graph::serialize$")
    rd = one(w, r"Graph::Graph$", None, ["buffer"])
    if not wr or not rd:
        ck.incomplete("E12.serial-layout", "Graph::serialize / Graph(buffer) not found")
        return
    wfn, rfn = wr[0], rd[0]
    wk, rk = w.fk(wfn), w.fk(rfn)
    # writer header
    W = {}
    for e in wk.events:
        if e.kind == "sub" and e.mode == "write" and e.arr.key.startswith("reinterpret(") and e.rng.exact is not None and e.rng.exact.is_const():
            W[e.rng.exact.c] = (wk.size(e.val), e)
    # reader header: atoms bound to slots
    R = {}
    for n in rfn.nodes():
        if n.get("k") == "Var" and n.get("init") is not None:
            sub = _subscript(n["init"])
            if sub is not None:
                a = rk.array_of(sub[0])
                ix = rk.size(sub[1])
                if a is not None and a.key.startswith("reinterpret(") and ix is not None and ix.is_const():
                    R[n["n"]] = ix.c
    rfield = {}
    for e in rk.events:
        if e.kind == "field" and e.get("val_expr") is not None:
            sub = _subscript(e.val_expr)
            if sub is not None:
                ix = rk.size(sub[1])
                if ix is not None and ix.is_const():
                    rfield[e.key] = ix.c
    subst = {}
    for nm, slot in R.items():
        if slot in W and W[slot][0] is not None:
            subst[nm] = W[slot][0]

    def rd_lin(lin):
        return wk.norm(lin.subst(subst)) if lin is not None else None

    def seq_of(fk):
        """payload sequence: ('seg', array key, length) / ('adv', amount), cursor start"""
        out = []
        start = None
        for e in fk.events:
            if e.kind == "cursor-init" and e.arr is not None and e.arr.key.startswith("reinterpret("):
                start = e.start_canon
            if e.kind == "sub-untracked" and e.get("base_decl") in fk.cursor:
                lps = [f.loop for f in e.frames if f.kind == "loop"]
                other = None
                src = e.val if e.mode == "write" else None
                if e.mode == "write":
                    s2 = _subscript(src)
                    a = fk.array_of(s2[0]) if s2 is not None else None
                    out.append(("seg", a.key if a is not None else "?", lps[0].rng if lps and lps[0] is not None else None, e, fk.canon(s2[1]) if False else None))
            if e.kind == "sub" and e.mode == "write" and e.arr.key in ("this._domain_ptr", "this._image_idx"):
                s2 = _subscript(e.val)
                if s2 is not None and strip(s2[0]).get("k") == "Ref" and strip(s2[0]).get("d") in fk.cursor:
                    lps = [f.loop for f in e.frames if f.kind == "loop"]
                    out.append(("seg", e.arr.key, lps[0].rng if lps and lps[0] is not None else None, e, None))
            if e.kind == "cursor-adv" and e.cursor.get("kind") == "ptr":
                out.append(("adv", None, e.get("amount"), e, None))
        return start, out
    ws, wseq = seq_of(wk)
    rs, rseq = seq_of(rk)
    P, I = "this._domain_ptr", "this._image_idx"
    sizeP, sizeI = wk.norm(Lin.atom("size(%s)" % P)), wk.norm(Lin.atom("size(%s)" % I))
    # header slots
    checks = []
    ralloc = {e.arr.key: e.arr for e in rk.events if e.kind == "alloc" and e.frames}
    ep = rd_lin(ralloc[P].extent) if P in ralloc and ralloc[P].extent is not None else None
    checks.append(("header/num-domain", ep == sizeP, "reader allocates _domain_ptr with %r entries = %r under the writer's header value (%s); the writer stored an array of %r entries" % (
        ralloc[P].extent if P in ralloc else None, ep, render(W[2][1].val) if 2 in W else "?", sizeP), W[2][1].node.get("l") if 2 in W else rfn.line))
    ei = rd_lin(ralloc[I].extent) if I in ralloc and ralloc[I].extent is not None else None
    checks.append(("header/num-indices", ei == sizeI, "reader allocates _image_idx with %r entries = %r; writer stored %r" % (ralloc[I].extent if I in ralloc else None, ei, sizeI),
                   W[4][1].node.get("l") if 4 in W else rfn.line))
    slot_img = rfield.get("this._num_nodes_image")
    wimg = W.get(slot_img, (None, None))[0] if slot_img is not None else None
    checks.append(("header/num-image", wimg is not None and wk.norm(wimg) == wk.norm(Lin.atom("this._num_nodes_image")),
                   "reader takes _num_nodes_image from header slot %s, where the writer stored %r" % (slot_img, wimg), rfn.line))
    # payload
    def desc(seq, f):
        return [(k, a, (f(Lin.const(0) + r.hi) if isinstance(r, Rng) else (f(r) if isinstance(r, Lin) else None))) for k, a, r, e, _ in seq]
    wd = desc(wseq, wk.norm)
    rdd = desc(rseq, rd_lin)
    checks.append(("payload/start", ws == rs and ws is not None, "payload starts at 64-bit word %s in the writer and %s in the reader" % (ws, rs), wfn.line))
    for i, nm in enumerate(("payload/_domain_ptr", "payload/advance", "payload/_image_idx")):
        a = wd[i] if i < len(wd) else None
        b = rdd[i] if i < len(rdd) else None
        checks.append((nm, a is not None and a == b and a[2] is not None, "writer: %s, reader (under the writer's header): %s" % (a, b), (rseq[i][3].node.get("l") if i < len(rseq) else rfn.line)))
    if len(wd) != 3 or len(rdd) != 3:
        checks.append(("payload/sections", False, "writer has %d payload steps, reader %d (expected pointer array, advance, index array)" % (len(wd), len(rdd)), rfn.line))
    unclear_names = set()
    if ep is None or 2 not in W or W[2][0] is None:
        unclear_names.add("header/num-domain")
    if ei is None or 4 not in W or W[4][0] is None:
        unclear_names.add("header/num-indices")
    if slot_img is None or wimg is None:
        unclear_names.add("header/num-image")
    if ws is None or rs is None:
        unclear_names.add("payload/start")
    for i, nm in enumerate(("payload/_domain_ptr", "payload/advance", "payload/_image_idx")):
        for dsc in (wd, rdd):
            if i < len(dsc) and dsc[i][2] is None:
                unclear_names.add(nm)
    if wk.unknown or rk.unknown:
        ck.incomplete("E12.serial-layout", "serialize / Graph(buffer) contain constructs that are not modelled: %s" % "; ".join(x[0] for x in wk.unknown + rk.unknown))
        checks = []
    for nm, ok, d, line in checks:
        if not ok and nm in unclear_names:
            ck.incomplete("E12.serial-layout", "Graph::serialize<->Graph(buffer)/%s: a size is not a size expression (%s)" % (nm, d))
            continue
        ck.ob("E12.serial-layout", "Graph::serialize<->Graph(buffer)/%s" % nm, bool(ok), d, rfn.file, line)
    # ---- sort_indices ------------------------------------------------------------------------------------
    for fn in one(w, r"Graph::sort_indices$"):
        fk = w.fk(fn)
        calls = [e for e in fk.events if e.kind == "call" and (e.callee or "") in ("std::sort", "std::stable_sort")]
        problems = []
        unclear_sort = [x[0] for x in fk.unknown]
        if len(calls) != 1:
            why = elsewhere(fk, ("this._image_idx", "this._domain_ptr"))
            if why or len(calls) > 1:
                unclear_sort.append("%d direct sort calls; %s" % (len(calls), why or "several sorts are not modelled"))
            else:
                problems.append("the image indices are not sorted at all (no sort call, no helper that could do it)")
        else:
            c = calls[0]
            # the sort must be reached for every node: no data dependent way out of / around the loop body before it
            lpnode = [f for f in c.frames if f.kind == "loop"]
            for e in fk.events:
                if lpnode and e.frames and e.frames[0].node is lpnode[0].node and e.seq < c.seq and e.kind in ("break", "continue", "return"):
                    ifs = [f for f in e.frames if f.kind == "if"]
                    empty_list = bool(ifs) and _is_empty_list_test(fk, ifs[-1], lpnode[0].loop)
                    if e.kind == "continue" and empty_list == "then" == ifs[-1].branch:
                        continue          # skipping a node without adjacencies: nothing to sort
                    if e.kind in ("break", "return") and empty_list == ifs[-1].branch if ifs else False:
                        problems.append("the loop over the domain nodes is left by `%s` at the first node without adjacencies (line %s): the adjacency lists of all later nodes "
                                        "stay unsorted" % (e.kind, e.node.get("l")))
                    else:
                        unclear_sort.append("`%s` under %s before the sort: which nodes are skipped is not evaluable" % (e.kind, ifs[-1].canon if ifs else "no condition"))
            cif = [f for f in c.frames if f.kind == "if"]
            for f in cif:
                t = _is_empty_list_test(fk, f, lpnode[0].loop if lpnode else None)
                if not (t and t != f.branch):
                    unclear_sort.append("the sort is executed only under %s: which nodes are skipped is not evaluable" % f.canon)
            lps = [f.loop for f in c.frames if f.kind == "loop"]
            if len(lps) != 1 or lps[0].kind != "range" or lps[0].lo != 0 or lps[0].hi is None or fk.norm(lps[0].hi) + 1 != fk.norm(Lin.atom("size(this._domain_ptr)")):
                problems.append("the sort is not applied for every domain node in [0,|_domain_ptr|-1)")
            ends = []
            for a in c.node.get("a", [])[:2]:
                subs = [x for x in walk(a) if x.get("k") != "Cast" and _subscript(x) is not None and fk.array_of(_subscript(x)[0]) is not None
                        and fk.array_of(_subscript(x)[0]).key == "this._domain_ptr"]
                begins = [x for x in walk(a) if x.get("k") == "MCall" and x.get("n") == "begin" and fk.okey(x.get("obj")) == "this._image_idx"]
                if len(subs) != 1 or len(begins) != 1:
                    unclear_sort.append("sort bound %s is not of the form _image_idx.begin() + _domain_ptr[.]" % render(a)[:60])
                else:
                    ends.append(_subscript(subs[0])[1])
            if len(ends) == 2:
                # canon of the two offsets relative to the loop variable
                a0, a1 = strip(ends[0]), strip(ends[1])
                v = lps[0].var if lps else None
                ok0 = a0.get("k") == "Ref" and a0.get("d") == v
                ok1 = a1.get("k") == "Bin" and a1.get("op") == "+" and strip(a1["lhs"]).get("d") == v and fk.size(a1["rhs"]) == Lin.const(1)
                if not (ok0 and ok1):
                    problems.append("sorted range is [_domain_ptr[%s], _domain_ptr[%s]), not the adjacency list [_domain_ptr[i], _domain_ptr[i+1]) of one node" % (render(a0), render(a1)))
        if unclear_sort and not problems:
            ck.incomplete("E2.sort-segment", "Graph::sort_indices(): %s" % "; ".join(unclear_sort))
            continue
        ck.ob("E2.sort-segment", "Graph::sort_indices()", not problems, "; ".join(problems) if problems else
              "std::sort over [_image_idx.begin()+_domain_ptr[i], _image_idx.begin()+_domain_ptr[i+1]) for every domain node i", fn.file, fn.line)


def _is_empty_list_test(fk, frame, lp):
    """'then' / 'else': the branch of the if-frame that is taken exactly when the adjacency list of the loop's node is empty
    (P[i] == P[i+1], P[i+1] == P[i], P[i] != P[i+1], P[i+1] - P[i] == 0, P[i] >= P[i+1]); None if the condition is something else"""
    c = strip(frame.node.get("c"))
    if lp is None or c is None or c.get("k") != "Bin" or c.get("op") not in ("==", "!=", ">=", "<"):
        return None
    l, r = strip(c["lhs"]), strip(c["rhs"])

    def off(x):
        sub = _subscript(x)
        if sub is None:
            return None
        a = fk.sub_arr(x)
        if a is None or not a.key.endswith("._domain_ptr"):
            return None
        ix = strip(sub[1])
        if ix.get("k") == "Ref" and ix.get("d") == lp.var:
            return 0
        if ix.get("k") == "Bin" and ix.get("op") == "+" and strip(ix["lhs"]).get("d") == lp.var and fk.size(ix["rhs"]) == Lin.const(1):
            return 1
        return None
    a, b = off(l), off(r)
    if a is None or b is None or a == b:
        return None
    op = c["op"]
    if op == "==":
        return "then"
    if op == "!=":
        return "else"
    if op == ">=" and a == 0:      # P[i] >= P[i+1]  <=> empty (offsets are monotone)
        return "then"
    if op == "<" and a == 0:       # P[i] < P[i+1] <=> non-empty
        return "else"
    return None


# -------------------------------------------------------------------------------------------------
# Cuthill-McKee: slot bookkeeping across levels and components (zone analysis of the counters)
# -------------------------------------------------------------------------------------------------

def rule_cm_slots(w):
    """every node is stored at slot = number of nodes stored so far"""
    import czones
    ck = w.ck
    fns = one(w, r"CuthillMcKee::compute$", None, ["layers", "graph", "reverse", "r_type", "s_type"])
    if not fns:
        ck.incomplete("E7.cm-slot", "CuthillMcKee::compute(layers, graph, ...) not found")
        return
    fn = fns[0]
    fk = w.fk(fn)
    PA = "perm._perm_pos"
    ins = [e for e in fk.events if e.kind == "sub" and e.mode == "write" and e.arr.key == PA and e.op == "=" and not (e.val_canon or "").startswith(PA + "[")
           and not _is_perm_elem(fk, e.val, PA)]
    if fk.unknown or len(ins) < 2:
        ck.incomplete("E7.cm-slot", "CuthillMcKee::compute: insertions into the permutation array not recognised")
        return
    ids = {id(e.node): e for e in ins}
    results = {}

    def on_store(cp, n, st):
        e = ids.get(id(strip(n["lhs"])))
        if e is None:
            return st
        t = cp.term(e.idx)
        if t is None or t[0] == czones.ZERO:
            results[id(e.node)] = (e, None, None)
        else:
            results[id(e.node)] = (e, t, st.bounds(t[0], "placed"))
            # continue under the assumption that the slot was right (no follow-up alarms)
            s2 = st.add(t[0], "placed", -t[1])
            s2 = s2.add("placed", t[0], t[1]) if s2 is not None else None
            st = s2 if s2 is not None else st
        return st.assign("placed", "placed", 1)
    cp = czones.CounterProgram(fn, ghosts=["placed"], on_store=on_store)
    cp.run()
    # variables the slots depend on
    rel = {t[0] for e, t, b in results.values() if t is not None}
    for _ in range(6):
        for x, y in cp.copies:
            if x in rel and y != czones.ZERO:
                rel.add(y)
    opaque = [(cp.names.get(d), n.get("l")) for d, n in cp.havocs if d in rel and n.get("k") != "Var" or (d in rel and n.get("k") == "Var" and n.get("init") is not None)]
    if cp.rounds_exceeded or cp.unmodelled or len(results) != len(ins):
        ck.incomplete("E7.cm-slot", "CuthillMcKee::compute: counter skeleton not solvable (%s)" % ("iteration limit" if cp.rounds_exceeded else "unmodelled statements / stores not reached"))
        return
    for e, t, b in results.values():
        what = "root" if not [f for f in e.frames if f.kind == "if"] else "neighbour"
        key = "CuthillMcKee::compute/%s" % what
        if t is None:
            ck.incomplete("E7.cm-slot", "%s: slot expression %s is not counter +- constant" % (key, render(e.idx)))
            continue
        name = cp.names.get(t[0])
        lo, hi = b
        want = -t[1]
        if lo is not None and hi is not None and lo == hi == want:
            ck.ob("E7.cm-slot", key, True, "slot %s equals the number of nodes stored so far on every path (%s - #stored = %d is an invariant of the level counters)" % (
                render(e.idx), name, want), fn.file, e.node.get("l"))
        elif opaque:
            ck.incomplete("E7.cm-slot", "%s: the counters %s are assigned values that are not counter +- constant" % (key, ", ".join("%s (line %s)" % o for o in opaque)))
        else:
            rng_ = "[%s, %s]" % ("-inf" if lo is None else lo + t[1], "+inf" if hi is None else hi + t[1])
            ck.ob("E7.cm-slot", key, False, "slot %s is not tied to the number of nodes stored so far: over all paths (slot - #stored) ranges over %s instead of {0}; "
                  "a path into this store leaves %s behind the store counter (e.g. an exit of the level loop that does not advance it), so an occupied slot is overwritten "
                  "and a node is lost" % (render(e.idx), rng_, name), fn.file, e.node.get("l"))


# -------------------------------------------------------------------------------------------------
# iterator invariant of composite adjactors
# -------------------------------------------------------------------------------------------------

def rule_iter_invariant(w):
    """after every modification of the inner iterator of a nested image iterator the function either tests it against its end
    or moves on: 'dereferenceable or at end' on every return"""
    ck = w.ck
    obs = {}
    classes = {}
    for fn in w.fns:
        if re.search(r"::ImageIterator$", fn.cls or "") and re.search(r"kernel/adjacency/adjactor\.hpp$", fn.file):
            classes.setdefault(fn.cls, []).append(fn)
    if not classes:
        ck.incomplete("E7.iter-invariant", "no nested ImageIterator class of a composite adjactor instantiated")
    for cls, fns in sorted(classes.items()):
        # inner iterator fields: assigned from X->image_begin(*outer field)
        inner = set()
        for fn in fns:
            for n in fn.nodes():
                tgt, rhs = _assign_parts(n)
                if tgt is not None and tgt.get("k") == "Member" and rhs is not None and rhs.get("k") == "MCall" and rhs.get("n") == "image_begin" and rhs.get("a"):
                    d = _is_deref(rhs["a"][0])
                    if d is not None and d.get("k") == "Member":
                        inner.add(tgt["n"])
        # member helpers of the iterator class that re-position an inner iterator on EVERY path (the shared 'seek the next non-empty list' search):
        # a call of such a helper is a re-positioning; the invariant at the helper's exits is judged inside the helper
        helpers = {}
        for h in fns:
            if h.cfg is None or h.d.get("ctor"):
                continue
            for fld0 in inner:
                ok0, _ = h.cfg.must_pass(lambda x, f0=fld0: _modifies(x, inner)[1] == f0 and _modifies(x, inner)[0] in ("load", "reset"))
                if ok0:
                    helpers.setdefault(h.full, set()).add(fld0)

        def mod(n, fn_=None):
            k0, f0 = _modifies(n, inner)
            if k0 is not None or n is None or n.get("k") not in ("MCall", "Call"):
                return k0, f0
            callee = w.findex.lookup(n)
            if callee is not None and callee.full in helpers and callee.cls == cls and callee is not fn_:
                o = strip(n.get("obj")) if n.get("obj") is not None else None
                while o is not None and o.get("k") == "Un" and o.get("op") == "*":
                    o = strip(o.get("e"))
                if o is None or o.get("k") == "This":
                    return "load by %s()" % callee.name, sorted(helpers[callee.full])[0]
            return None, None
        for fn in fns:
            cfg = fn.cfg
            if cfg is None:
                continue
            for b in cfg.blocks.values():
                for pos, eid in enumerate(b["el"]):
                    n = fn.by_id(eid)
                    kind, fld = mod(n, fn)
                    if kind is None or kind == "reset":
                        continue          # a reset (value-initialised iterator) is the end state itself
                    if kind.startswith("load by "):
                        key = "%s::%s(%s)/%s after %s" % (re.sub(r"<.*>::", "::", strip_ns(cls)), fn.name, ",".join(p["n"] for p in fn.params), fld, kind)
                        obs.setdefault(key, []).append((True, "`%s` re-positions %s on every path; the 'dereferenceable or at end' state at its exits is judged inside the helper" % (
                            render(n)[:60], fld), fn.file, n.get("l")))
                        continue
                    verdict = _escapes(fn, cfg, b, pos, fld, inner, mod)
                    key = "%s::%s(%s)/%s after %s" % (re.sub(r"<.*>::", "::", strip_ns(cls)), fn.name, ",".join(p["n"] for p in fn.params), fld, kind)
                    if verdict is None:
                        ck.incomplete("E7.iter-invariant", "%s: control flow after the modification not analysable" % key)
                        continue
                    d = ("after `%s` the function can return without testing %s against its end and without moving on: for an empty inner list the iterator is neither "
                         "dereferenceable nor equal to the end iterator (operator* then reads past the list)" % (render(n)[:70], fld)) if verdict else \
                        "after `%s` every path to a return tests %s against its end (or re-positions it)" % (render(n)[:70], fld)
                    obs.setdefault(key, []).append((not verdict, d, fn.file, n.get("l")))
    for key, lst in sorted(obs.items()):
        bad = [x for x in lst if not x[0]]
        pick = bad[0] if bad else lst[0]
        ck.ob("E7.iter-invariant", key, not bad, pick[1], pick[2], pick[3])


def strip_ns(s):
    return (s or "").replace("FEAT::Adjacency::", "")


def _assign_parts(n):
    if n.get("k") == "Assign" and n.get("op") == "=":
        return strip(n["lhs"]), strip(n["rhs"])
    if n.get("k") == "OpCall" and n.get("op") == "=" and len(n.get("a", [])) == 2:
        return strip(n["a"][0]), strip(n["a"][1])
    return None, None


def _modifies(n, inner):
    if n is None:
        return None, None
    tgt, rhs = _assign_parts(n)
    if tgt is not None and tgt.get("k") == "Member" and tgt["n"] in inner:
        if rhs is not None and rhs.get("k") == "MCall" and rhs.get("n") == "image_begin":
            return "load", tgt["n"]
        return "reset", tgt["n"]
    inc = _is_incdec(n)
    if inc is not None and inc[0].get("k") == "Member" and inc[0]["n"] in inner and n.get("k") in ("Un", "OpCall"):
        return "increment", inc[0]["n"]
    return None, None


def _deref_test(fn, cond_id, fld):
    """+1: the condition is `fld != end` (true edge = dereferenceable), -1: `fld == end`, 0: something else"""
    c = strip(fn.by_id(cond_id)) if cond_id is not None else None
    if c is None:
        return 0
    sign = 1
    while c is not None and ((c.get("k") == "Un" and c.get("op") == "!") or (c.get("k") == "OpCall" and c.get("op") == "!" and len(c.get("a", [])) == 1)):
        c = strip(c["e"] if c.get("k") == "Un" else c["a"][0])
        sign = -sign
    if c is None:
        return 0
    op = None
    if c.get("k") == "Bin" and c.get("op") in ("!=", "=="):
        op, l, r = c["op"], strip(c["lhs"]), strip(c["rhs"])
    elif c.get("k") == "OpCall" and c.get("op") in ("!=", "==") and len(c.get("a", [])) == 2:
        op, l, r = c["op"], strip(c["a"][0]), strip(c["a"][1])
    if op is None:
        return 0

    def base(x):
        inc = _is_incdec(x)
        if inc is not None:
            x = inc[0]
        return x
    l, r = base(l), base(r)
    names = {x.get("n") for x in (l, r) if x is not None and x.get("k") == "Member"}
    if fld in names and len(names) == 2:
        return sign * (1 if op == "!=" else -1)
    return 0


def _escapes(fn, cfg, b, pos, fld, inner, mod=None):
    """True iff the function exit is reachable from the modification without passing a dereferenceability test (on its 'yes' edge)
    or a re-positioning of the same field"""
    mod = mod or (lambda n, fn_=None: _modifies(n, inner))
    for eid in b["el"][pos + 1:]:
        k, f = mod(fn.by_id(eid), fn)
        if k is not None and (k in ("load", "reset") or k.startswith("load by ")) and f == fld:
            return False

    def succs(blk):
        ss = [s for s in blk.get("succ", []) if s is not None]
        t = _deref_test(fn, blk.get("cond"), fld)
        if t != 0 and len(blk.get("succ", [])) == 2:
            keep = blk["succ"][1] if t == 1 else blk["succ"][0]
            return [keep] if keep is not None else []
        return ss
    seen = set()
    st = succs(b)
    while st:
        x = st.pop()
        if x in seen:
            continue
        seen.add(x)
        if x == cfg.exit:
            return True
        blk = cfg.blocks[x]
        if any(mod(fn.by_id(eid), fn)[1] == fld for eid in blk["el"]):
            continue
        st.extend(succs(blk))
    return False


# -------------------------------------------------------------------------------------------------
# preconditions of member functions called by the render constructors
# -------------------------------------------------------------------------------------------------

def rule_callee_precond(w):
    """XASSERTs on the length of member arrays at the entry of a member function called by a render constructor must be
    implied by what the render function has just built"""
    ck = w.ck
    ctors = [fn for fn in w.fns if fn.name == "Graph" and re.search(G, fn.cls or "") and fn.param("render_type") and fn.tk == "inst"]
    obs = {}
    for ctor in ctors:
        fk = w.fk(ctor)
        arms = {}
        for e in fk.events:
            cases = [f for f in e.frames if f.kind == "case"]
            if cases and e.kind == "call" and e.obj == "this" and not (e.callee or "").startswith("std::"):
                arms.setdefault(id(cases[-1].node), []).append(e)
        for calls in arms.values():
            rcalls = [e for e in calls if e.name.startswith("_render")]
            others = [e for e in calls if not e.name.startswith("_render")]
            if len(rcalls) != 1:
                continue
            rfn = w.findex.lookup(rcalls[0].node)
            if rfn is None:
                continue
            rk = w.fk(rfn)
            for oc in others:
                if oc.seq < rcalls[0].seq:
                    continue
                cfn = w.findex.lookup(oc.node)
                if cfn is None:
                    ck.incomplete("E7.callee-precond", "%s: callee %s not in the fact base" % (short(ctor), oc.name))
                    continue
                ckk = w.fk(cfn)
                first_loop = min([e.seq for e in ckk.events if e.frames] or [10 ** 9])
                for a in [e for e in ckk.events if e.kind == "assert" and not e.frames and e.seq < first_loop]:
                    key = "%s/XASSERT(%s)" % (short_noinst(cfn), a.canon)
                    arrkey, need = _length_requirement(ckk, a.cond)
                    if arrkey is None:
                        ck.incomplete("E7.callee-precond", "%s: entry assertion not a length requirement on a member array" % key)
                        continue
                    # what the render function leaves in that array
                    node, fields, arrs = rk.returns[-1]
                    ent = arrs.get(arrkey)
                    alloc = [e for e in rk.events if e.kind == "alloc" and e.arr.key == arrkey]
                    if ent is None or not alloc:
                        ck.incomplete("E7.callee-precond", "%s: %s does not allocate %s" % (key, rfn.name, arrkey))
                        continue
                    ext = ent[0]
                    if ext is not None:
                        e2 = rk.norm(ext)
                        ok = e2.c >= need and all(v >= 0 for v in e2.t.values())
                        d = "%s builds %s with %r entries: %s" % (rfn.name, arrkey, e2, "never fewer than %d" % need if ok else "can be fewer than %d (every size symbol may be 0)" % need)
                    else:
                        arr = alloc[-1].arr
                        xe = strip(getattr(arr, "extent_expr", None))
                        counted = xe is not None and xe.get("k") == "Ref" and xe.get("dk") == "local" and rk.mut.get(xe.get("d"))
                        if not counted:
                            ck.incomplete("E7.callee-precond", "%s: extent %s of %s is neither a size expression nor a counter" % (key, getattr(arr, "extent_canon", "?"), arrkey))
                            continue
                        ok = False
                        d = ("%s allocates %s with the number of counted adjacencies (%s), which is 0 for a relation without any adjacency (the render functions handle that case), "
                             "but %s requires at least %d: every render type that calls it aborts on such input" % (rfn.name, arrkey, getattr(arr, "extent_canon", "?"), cfn.name, need))
                    obs.setdefault(key, []).append((ok, d + " [called after %s in %s]" % (rfn.name, short(ctor)), cfn.file, a.node.get("l")))
    for key, lst in sorted(obs.items()):
        bad = [x for x in lst if not x[0]]
        pick = bad[0] if bad else lst[0]
        ck.ob("E7.callee-precond", key, not bad, pick[1], pick[2], pick[3])


def _length_requirement(fk, cond):
    """(member array key, minimal length) for `!A.empty()`, `A.size() > c`, `A.size() >= c`, `A.size() != 0`"""
    c = strip(cond)
    if c is None:
        return None, None
    if c.get("k") == "Un" and c.get("op") == "!":
        e = strip(c["e"])
        if e.get("k") == "MCall" and e.get("n") == "empty" and not e.get("a"):
            return fk.okey(e.get("obj")), 1
        return None, None
    if c.get("k") == "Bin" and c.get("op") in (">", ">=", "!="):
        l, r = strip(c["lhs"]), strip(c["rhs"])
        cv = fk.size(r)
        if l.get("k") == "MCall" and l.get("n") == "size" and not l.get("a") and cv is not None and cv.is_const():
            need = cv.c + 1 if c["op"] == ">" else (cv.c if c["op"] == ">=" else (1 if cv.c == 0 else None))
            if need is not None:
                return fk.okey(l.get("obj")), need
    return None, None


# -------------------------------------------------------------------------------------------------
# permuted copy of a graph: the fill cursor follows the offsets the first pass defined
# -------------------------------------------------------------------------------------------------

def rule_perm_fill(w):
    ck = w.ck
    fns = one(w, r"Graph::Graph$", None, ["other", "domain_perm", "image_perm"])
    if not fns:
        ck.incomplete("E3.perm-fill", "Graph(other, domain_perm, image_perm) not found")
        return
    fn = fns[0]
    fk = w.fk(fn)
    key = "Graph::Graph(other,domain_perm,image_perm)/fill-cursor"
    P, I = "this._domain_ptr", "this._image_idx"
    if fk.unknown:
        ck.incomplete("E3.perm-fill", "%s: %s" % (key, "; ".join(x[0] for x in fk.unknown)))
        return
    stores = [e for e in fk.events if e.kind == "sub" and e.mode == "write" and e.arr.key == I]
    offs = [e for e in fk.events if e.kind == "sub" and e.mode == "write" and e.arr.key == P and e.frames]
    if len(stores) != 1 or len(offs) != 1:
        ck.incomplete("E3.perm-fill", "%s: %d stores into _image_idx, %d offset definitions in loops" % (key, len(stores), len(offs)))
        return
    st, of = stores[0], offs[0]
    segs = [f for f in st.frames if f.kind == "loop" and f.loop is not None and f.loop.kind == "seg"]
    rows = [f for f in st.frames if f.kind == "loop" and f.loop is not None and f.loop.kind == "range"]
    ix = strip(st.idx)
    if len(segs) != 1 or len(rows) != 1 or st.frames[0] is not rows[0] or ix.get("k") != "Ref" or ix.get("dk") != "local" or not segs[0].loop.pair_ok:
        ck.incomplete("E3.perm-fill", "%s: store is not `_image_idx[cursor]` inside (row loop > segment of the source row)" % key)
        return
    seg = segs[0].loop
    X = seg.canon[len("seg(%s," % seg.arr.key):-1]
    S = seg.arr.key
    # pass 1: new offsets = running sum of the lengths of exactly these segments, rows in the same order
    want = sorted([(1, "%s[(%s + 1)]" % (S, X)), (-1, "%s[%s]" % (S, X)), (1, "%s[$0]" % P)])
    of_rows = [f for f in of.frames if f.kind == "loop"]
    problems = []
    if of.idx_canon != "($0 + 1)" or of.val_terms != want or len(of_rows) != 1 or of_rows[0].loop is None or of_rows[0].loop.canon != rows[0].loop.canon:
        ck.incomplete("E3.perm-fill", "%s: the first pass is not `_domain_ptr[i+1] = (length of source row %s) + _domain_ptr[i]` over the same rows (%s[%s] = %s over %s)" % (
            key, X, P, of.idx_canon, of.val_canon, of_rows[0].canon if of_rows else "?"))
        return
    c = ix["d"]
    cname = ix["n"]
    vdecl = fk.locals.get(c)
    assigns = [e for e in fk.events if e.kind == "scalar" and e.var == c and e.op == "="]
    incs = [e for e in fk.events if (e.kind == "scalar" and e.var == c and e.op == "++") or (e.kind == "cursor-adv" and e.var == c and e.op == "++")]
    other_mut = [e for e in fk.events if (e.kind == "scalar" and e.var == c and e.op not in ("=", "++")) or (e.kind == "cursor-adv" and e.var == c and e.op != "++")]
    if other_mut or len(incs) != 1 or frames_key(incs[0].frames) != frames_key(st.frames) or vdecl is None or vdecl.get("init") is None:
        ck.incomplete("E3.perm-fill", "%s: cursor %s is not advanced by exactly one increment per stored index" % (key, cname))
        return
    depth = fk.decl_depth.get(c, 0)
    init = strip(vdecl["init"])
    if depth == 0 and not assigns:
        z = fk.size(init)
        ok = z == Lin.const(0)
        d = ("running cursor %s starts at 0 before the row loop and advances once per stored index; the rows and their lengths are those summed into _domain_ptr, "
             "so row i starts at the new _domain_ptr[i]" % cname) if ok else "running cursor %s starts at %s instead of 0" % (cname, render(init))
        ck.ob("E3.perm-fill", key, ok, d, fn.file, st.node.get("l"))
        return
    if depth == 1 and not assigns:
        sub = _subscript(init)
        arr = fk.sub_arr(init) if sub is not None else None
        if arr is None:
            ck.incomplete("E3.perm-fill", "%s: per-row cursor start %s is not an offset array element" % (key, render(init)))
            return
        ixs = strip(sub[1])
        row_var = rows[0].loop.var
        if arr.key == P and ixs.get("k") == "Ref" and ixs.get("d") == row_var:
            ck.ob("E3.perm-fill", key, True, "cursor of destination row i starts at the new offset _domain_ptr[i] defined by the first pass", fn.file, st.node.get("l"))
        elif arr.key.endswith("._domain_ptr") or arr.key == P:
            ck.ob("E3.perm-fill", key, False, "the fill cursor of destination row %s starts at %s[%s]; the first pass laid the rows out at %s[%s] (running sum of the permuted row "
                  "lengths), so rows of different length overwrite each other / leave gaps" % (rows[0].loop.varname, arr.key, render(ixs), P, rows[0].loop.varname), fn.file, vdecl.get("l"))
        else:
            ck.incomplete("E3.perm-fill", "%s: per-row cursor start %s[%s] not understood" % (key, arr.key, render(ixs)))
        return
    ck.incomplete("E3.perm-fill", "%s: cursor %s is re-assigned in a way that is not modelled" % (key, cname))


# -------------------------------------------------------------------------------------------------
# move operations: every member is taken from the source before the source is reset; ctor and assignment transfer the same members
# -------------------------------------------------------------------------------------------------

class _OdSet(frozenset):
    """decl ids that denote the moved-from object (the parameter and reference locals bound to it); `x == ids` reads as membership so that the
    comparisons `strip(b).get("d") == od` of the rule keep working"""
    def __eq__(self, other):
        if isinstance(other, (set, frozenset)):
            return frozenset.__eq__(self, other)
        return other in self
    def __ne__(self, other):
        return not self.__eq__(other)
    __hash__ = frozenset.__hash__


def _other_aliases(fn, od):
    ids = {od}
    changed = True
    while changed:
        changed = False
        for v in fn.nodes():
            if v.get("k") == "Var" and v.get("ref") and v.get("init") is not None and v["d"] not in ids:
                i0 = strip(v["init"])
                for _ in range(3):
                    if i0 is not None and i0.get("k") == "Call" and (i0.get("callee") or "") in ("std::move", "std::forward") and i0.get("a"):
                        i0 = strip(i0["a"][0])
                if i0 is not None and i0.get("k") == "Ref" and i0.get("d") in ids:
                    ids.add(v["d"])
                    changed = True
    return ids


def _other_fields(n, od):
    """names of the fields of the moved-from parameter (decl id od, or a set of aliasing decl ids) read below n"""
    ids = od if isinstance(od, (set, frozenset)) else {od}
    out = []
    for x in walk(n):
        if x.get("k") == "Member" and x.get("b") is not None:
            b = strip(x["b"])
            if b is not None and b.get("k") == "Ref" and b.get("d") in ids:
                out.append(x["n"])
    return out


def rule_moves(w):
    ck = w.ck
    per_class = {}
    for fn in w.fns:
        if not re.search(SCOPE_RE, fn.file) or fn.body is None:
            continue
        cname = (fn.cls or "").rsplit("::", 1)[-1]
        op = [p for p in fn.params if (fn.type(p["t"]) or "").rstrip().endswith("&&") and re.search(r"\b%s\b" % re.escape(cname), fn.type(p["t"]) or "")]
        if not cname or len(fn.params) != 1 or not op or not (fn.d.get("ctor") or fn.name == "operator="):
            continue
        od = _OdSet(_other_aliases(fn, op[0]["d"]))
        kind = "ctor" if fn.d.get("ctor") else "assign"
        key = "%s::%s(%s&&)" % (cname, fn.name, cname)
        # statements in execution order: constructor initialisers, then the body (the leading self-move check `if(this == &other) return *this;` is skipped)
        units = []
        for ini in fn.d.get("inits") or []:
            nm = ini.get("member") or ini.get("n") or ini.get("field")
            if nm and ini.get("init") is not None:
                units.append(("init", nm, ini["init"], ini.get("init")))
        unclear = []
        for st in fn.body.get("s", []):
            s0 = strip(st)
            if s0.get("k") == "If" and s0.get("else") is None and norm_c12._leaves_function(s0.get("then")) and not _other_fields(s0.get("then"), od) \
                    and any(x.get("k") == "This" for x in walk(s0.get("c"))):
                continue
            if s0.get("k") in ("If", "For", "While", "Do", "ForRange", "Switch", "Try") and _other_fields(s0, od):
                unclear.append("members of the source are accessed under control flow (line %s)" % s0.get("l"))
                continue
            units.append(("stmt", None, s0, s0))
        reset_at, transfers, problems = {}, {}, []
        for t, (uk, nm, node, _) in enumerate(units):
            reads, writes, moved = [], [], []
            if uk == "init":
                reads = _other_fields(node, od)
                tgt = [nm]
            else:
                tgt = []
                # assignment chains / compound statements: collect (target, source) pairs
                for x in walk(node):
                    lhs = rhs = None
                    if x.get("k") == "Assign":
                        lhs, rhs = strip(x["lhs"]), x["rhs"]
                    elif x.get("k") == "OpCall" and x.get("op") == "=" and len(x.get("a", [])) == 2:
                        lhs, rhs = strip(x["a"][0]), x["a"][1]
                    elif x.get("k") == "MCall" and x.get("n") in ("clear", "reset", "swap", "shrink_to_fit", "resize", "assign") and x.get("obj") is not None:
                        o = strip(x["obj"])
                        if o.get("k") == "Member" and o.get("b") is not None and strip(o["b"]).get("k") == "Ref" and strip(o["b"]).get("d") == od:
                            writes.append(o["n"])
                        continue
                    if lhs is None:
                        continue
                    if lhs.get("k") == "Member" and lhs.get("b") is not None and strip(lhs["b"]).get("k") == "Ref" and strip(lhs["b"]).get("d") == od:
                        writes.append(lhs["n"])
                    elif lhs.get("k") == "Member" and (lhs.get("b") is None or strip(lhs["b"]).get("k") == "This"):
                        tgt.append(lhs["n"])
                        # sources of this target: through chained assignments the innermost value
                        reads += _other_fields(rhs, od)
                # reads that are not assignment sources (arguments of calls ...)
                lhs_ids = set()
                for x in walk(node):
                    if x.get("k") == "Assign":
                        lhs_ids |= {id(y) for y in walk(x["lhs"])}
                    elif x.get("k") == "OpCall" and x.get("op") == "=" and x.get("a"):
                        lhs_ids |= {id(y) for y in walk(x["a"][0])}
                    elif x.get("k") == "MCall" and x.get("n") in ("clear", "reset", "swap", "shrink_to_fit", "resize", "assign") and x.get("obj") is not None:
                        lhs_ids |= {id(y) for y in walk(x["obj"])}
                for x in walk(node):
                    if x.get("k") == "Member" and id(x) not in lhs_ids and x.get("b") is not None and strip(x["b"]).get("k") == "Ref" and strip(x["b"]).get("d") == od:
                        if x["n"] not in reads:
                            reads.append(x["n"])
            for x in walk(node):
                if x.get("k") == "Call" and (x.get("callee") or "") in ("std::move", "std::forward") and x.get("a"):
                    moved += _other_fields(x["a"][0], od)
            for f in reads:
                if f in reset_at:
                    problems.append("`%s` (line %s) reads other.%s after the source member was %s at line %s: the target receives the reset value, not the source's" % (
                        render(node)[:60], node.get("l"), f, reset_at[f][1], reset_at[f][0]))
            for f in tgt:
                if f in reads:
                    transfers[f] = t
            for f in writes:
                reset_at.setdefault(f, (node.get("l"), "reset"))
            for f in moved:
                reset_at.setdefault(f, (node.get("l"), "moved from"))
        if unclear:
            ck.incomplete("E7.move-order", "%s: %s" % (key, "; ".join(unclear)))
        else:
            ck.ob("E7.move-order", key, not problems, "; ".join(problems) if problems else
                  "members %s are taken from the source before any of them is reset / moved from" % ", ".join(sorted(transfers)), fn.file, fn.line)
            per_class.setdefault(cname, {})[kind] = (set(transfers), fn)
    if not per_class:
        ck.incomplete("E7.move-order", "no move constructor / move assignment found in kernel/adjacency")
    for cname, d in sorted(per_class.items()):
        if set(d) != {"ctor", "assign"}:
            continue
        a, b = d["ctor"][0], d["assign"][0]
        ck.ob("E7.move-siblings", cname, a == b, ("move constructor transfers {%s}, move assignment {%s}: member %s keeps its old value in one of them" % (
            ", ".join(sorted(a)), ", ".join(sorted(b)), ", ".join(sorted(a ^ b)))) if a != b else
            "move constructor and move assignment transfer the same members {%s}" % ", ".join(sorted(a)), d["assign"][1].file, d["assign"][1].line)


# -------------------------------------------------------------------------------------------------
# size preconditions of constructors / functions: the argument is positive at every call
# -------------------------------------------------------------------------------------------------

def rule_size_precond(w):
    _ANY_SIZE[0] = True
    try:
        _rule_size_precond(w)
    finally:
        _ANY_SIZE[0] = False


def _rule_size_precond(w):
    ck = w.ck
    # callees with an unconditional entry assertion `p > 0` / `p >= c` / `p != 0` on a parameter
    req = {}
    for fn in w.fns:
        if not re.search(SCOPE_RE, fn.file) or fn.body is None:
            continue
        for st in fn.body.get("s", []):
            s0 = strip(st)
            if s0.get("k") == "Decl":
                continue
            if not (s0.get("k") == "Call" and (s0.get("callee") or "").endswith("FEAT::assertion") and s0.get("a")):
                break
            c = strip(s0["a"][0])
            if c.get("k") == "Bin" and c.get("op") in (">", ">=", "!="):
                l, r = strip(c["lhs"]), strip(c["rhs"])
                if l.get("k") == "Ref" and l.get("dk") == "param" and r.get("k") in ("Int", "Construct", "TempObj", "Cast"):
                    v = r
                    while v is not None and v.get("k") in ("Construct", "TempObj") and len(v.get("a", [])) == 1:
                        v = strip(v["a"][0])
                    if v is not None and v.get("k") == "Int":
                        n0 = int(v["v"])
                        need = n0 + 1 if c["op"] == ">" else (n0 if c["op"] == ">=" else (1 if n0 == 0 else None))
                        if need and need >= 1:
                            req.setdefault((fn.qn, tuple(p["n"] for p in fn.params)), {})[l["n"]] = (need, render(c), fn)
    obs = {}
    for fn in w.fns:
        if not re.search(SCOPE_RE, fn.file) or fn.body is None:
            continue
        fk = None
        par = None
        for n in fn.nodes():
            if n.get("k") not in ("Construct", "TempObj", "Call", "MCall"):
                continue
            pn = n.get("pn") or []
            r = req.get(((n.get("callee") or ""), tuple(pn)))
            if not r:
                continue
            fk = fk or w.fk(fn)
            par = par or _parents(fn.body)
            for pname, (need, ctext, cfn) in r.items():
                i = pn.index(pname)
                if i >= len(n.get("a", [])):
                    continue
                arg = n["a"][i]
                key = "%s/%s(%s=%s)" % (short_noinst(fn), short_noinst(cfn), pname, render(strip(arg))[:40])
                sz = fk.size(arg)
                if sz is not None:
                    z = fk.norm(sz)
                    if z.c >= need and all(v >= 0 for v in z.t.values()):
                        obs.setdefault(key, []).append((True, "argument %r is at least %d" % (z, need), fn.file, n.get("l")))
                        continue
                a0 = strip(arg)
                if a0.get("k") == "Ref" and a0.get("dk") == "param" and not fk.mut.get(a0.get("d")):
                    continue          # forwarded parameter: the caller's obligation
                ext = _extent_atom(fk, fn, a0)
                if ext is None:
                    obs.setdefault(key, []).append((None, "argument %s is not a length / size expression" % render(a0)[:50], fn.file, n.get("l")))
                    continue
                unclear = []
                guard = _nonempty_guard(fk, fn, n, par, ext, need, unclear)
                if guard is None and unclear:
                    obs.setdefault(key, []).append((None, "the call is dominated by the condition %s on %s which is not classified as a size check" % (render(unclear[0])[:60], ext), fn.file, n.get("l")))
                    continue
                obs.setdefault(key, []).append((guard is not None, ("%s requires %s; the argument %s is %s" % (short_noinst(cfn), ctext, render(a0)[:40], "guarded by " + guard)) if guard else
                                                "%s asserts `%s`, but %s is called with %s = %s without a dominating check that %s >= %d: for the empty object (which the class "
                                                "constructs and returns) the assertion aborts" % (short_noinst(cfn), ctext, short_noinst(cfn), pname, render(a0)[:40], ext, need), fn.file, n.get("l")))
    for key, lst in sorted(obs.items()):
        bad = [x for x in lst if x[0] is False]
        unk = [x for x in lst if x[0] is None]
        if unk and not bad:
            ck.incomplete("E7.size-precond", "%s: %s" % (key, unk[0][1]))
            continue
        pick = bad[0] if bad else lst[0]
        ck.ob("E7.size-precond", key, not bad, pick[1], pick[2], pick[3])


# -------------------------------------------------------------------------------------------------
# in-place updates that read another object of the same class: the other object may be *this
# -------------------------------------------------------------------------------------------------

def rule_alias_inplace(w):
    """member function f(const Class& p) that overwrites this->A[i] in a loop while the same loop reads p.A[j] at another position j: for p == *this the read
    sees entries that were already overwritten, unless the function excludes / handles that case"""
    ck = w.ck
    R = "E7.alias-inplace"
    n_inst = 0
    for fn in w.fns:
        if not re.search(SCOPE_RE, fn.file) or not re.search(CLASS_RE, fn.cls or "") or fn.d.get("ctor") or fn.body is None:
            continue
        if w.norm.inlined.get(fn.full, 0) > 0:
            continue          # a helper read in place of its calls is judged there (the key names the function a maintainer calls, not the helper)
        cname = (fn.cls or "").rsplit("::", 1)[-1]
        others = [p_ for p_ in fn.params if re.search(r"\b%s\b" % re.escape(cname), fn.type(p_["t"]) or "") and (fn.type(p_["t"]) or "").rstrip().endswith("&")
                  and not (fn.type(p_["t"]) or "").rstrip().endswith("&&")]
        if not others:
            continue
        fk = w.fk(fn)
        for o in others:
            on = o["n"]
            for e in fk.events:
                if e.kind != "sub" or e.mode != "write" or e.arr is None or not e.arr.key.startswith("this.") or not any(f.kind == "loop" for f in e.frames):
                    continue
                fld = e.arr.key[len("this."):]
                okey = "%s.%s" % (on, fld)
                # reads of the other object's same array inside the value, at an index that is not the written one
                reads = re.findall(re.escape(okey) + r"\[((?:[^\[\]]|\[[^\[\]]*\])*)\]", e.val_canon or "")
                hazard = [r for r in reads if r != e.idx_canon]
                if not reads:
                    continue
                n_inst += 1
                key = "%s/%s[%s] from %s" % (short_noinst(fn), e.arr.key, e.idx_canon, okey)
                if not hazard:
                    ck.ob(R, key, True, "only the element of %s at the written position is read: harmless when %s is *this" % (okey, on), fn.file, e.node.get("l"))
                    continue
                # a self test: this == &p / this != &p / &p == this anywhere in the function (assertion, early return, branch)
                def is_this(y):
                    y = strip(y)
                    return y is not None and y.get("k") == "This"

                def is_addr_of_other(y):
                    y = strip(y)
                    return y is not None and y.get("k") == "Un" and y.get("op") == "&" and strip(y["e"]).get("k") == "Ref" and strip(y["e"]).get("d") == o["d"]
                guard = [x for x in fn.nodes() if x.get("k") == "Bin" and x.get("op") in ("==", "!=") and
                         ((is_this(x["lhs"]) and is_addr_of_other(x["rhs"])) or (is_this(x["rhs"]) and is_addr_of_other(x["lhs"])))]
                ck.ob(R, key, bool(guard), ("the function tests whether %s is *this (line %s)" % (on, guard[0].get("l"))) if guard else
                      "`%s[%s] = %s` overwrites the array in place while reading %s[%s]: for %s == *this (e.g. p.concat(p), squaring a permutation) entries that were already "
                      "overwritten are read - the result is not the composition and in general not even a permutation; no test of `this == &%s` and no copy protects the loop" % (
                          e.arr.key, e.idx_canon, e.val_canon, okey, hazard[0], on, on), fn.file, e.node.get("l"))
    if n_inst == 0:
        cc = [fn for fn in w.fns if re.search(P, fn.cls or "") and fn.name == "concat" and re.search(SCOPE_RE, fn.file)]
        if not cc:
            ck.incomplete(R, "Permutation::concat not found")
        for fn in cc:
            fk = w.fk(fn)
            if fk.unknown:
                ck.incomplete(R, "%s: %s" % (short_noinst(fn), "; ".join(x[0] for x in fk.unknown)))
            else:
                ck.ob(R, "%s/no in-place update" % short_noinst(fn), True, "the composition is not written into the array it is read from (built in a separate array / object)", fn.file, fn.line)


# -------------------------------------------------------------------------------------------------
# CompositeAdjactor: the composition adj1 ; adj2 has the domain of the first and the image of the second adjactor
# -------------------------------------------------------------------------------------------------

def rule_composite_roles(w):
    ck = w.ck
    R = "E1.composite-roles"
    classes = {}
    for fn in w.fns:
        if re.search(r"Adjacency::CompositeAdjactor<.*>$", fn.cls or "") and re.search(r"kernel/adjacency/adjactor\.hpp$", fn.file):
            classes.setdefault(fn.cls, []).append(fn)
    if not classes:
        ck.incomplete(R, "CompositeAdjactor not instantiated by the driver")
    for cls, fns in sorted(classes.items()):
        cname = re.sub(r"FEAT::Adjacency::", "", cls)
        # which member holds the first / second adjactor: bound to the first / second constructor parameter
        ctor = [f for f in fns if f.d.get("ctor") and len(f.params) == 2]
        first = second = None
        if ctor:
            for ini in ctor[0].d.get("inits") or []:
                m = ini.get("member") or ini.get("n") or ini.get("field")
                refs = [x for x in walk(ini.get("init")) if x.get("k") == "Ref" and x.get("dk") == "param"]
                if m and len(refs) == 1:
                    if refs[0].get("d") == ctor[0].params[0]["d"]:
                        first = m
                    elif refs[0].get("d") == ctor[0].params[1]["d"]:
                        second = m
        if first is None or second is None:
            ck.incomplete(R, "%s: the members bound to the two constructor parameters are not recognised" % cname)
            continue

        def returned_accessor(f):
            stmts = [x for x in f.body.get("s", []) if not FnKinds._is_noise(x)]
            if len(stmts) != 1 or stmts[0].get("k") != "Return":
                return None
            e = strip(stmts[0].get("e"))
            if e is not None and e.get("k") == "MCall" and not e.get("a") and strip(e.get("obj")).get("k") == "Member":
                return strip(e["obj"])["n"], e.get("n")
            return None
        for gname, wm, wn, what in (("get_num_nodes_domain", first, "get_num_nodes_domain", "domain nodes of the FIRST adjactor"),
                                    ("get_num_nodes_image", second, "get_num_nodes_image", "image nodes of the SECOND adjactor")):
            g = [f for f in fns if f.name == gname and not f.params]
            if not g:
                ck.incomplete(R, "%s::%s() not instantiated" % (cname, gname))
                continue
            ra = returned_accessor(g[0])
            if ra is None:
                ck.incomplete(R, "%s::%s(): not of the form `return <member>.get_num_nodes_*()`" % (cname, gname))
                continue
            ck.ob(R, "%s::%s()" % (cname, gname), ra == (wm, wn), ("returns %s.%s()" % ra) + ("; the composition maps the %s" % what if ra == (wm, wn) else
                  ": the composed relation has the %s (%s.%s()); renders allocate / bound their arrays by this count, so for adjactors of different sizes the image indices "
                  "exceed it (or the transpose gets the wrong number of rows)" % (what, wm, wn)), g[0].file, g[0].line)
        # the well-formedness assertion of the constructor implies Img(first) <= Dom(second): image nodes of the first adjactor are used as domain nodes of the second
        if ctor:
            conds = [strip(x["a"][0]) for x in walk(ctor[0].body) if x.get("k") == "Call" and (x.get("callee") or "").endswith("FEAT::assertion") and x.get("a")]
            verdict = None
            for c in conds:
                neg = False
                while c is not None and c.get("k") == "Un" and c.get("op") == "!":
                    c, neg = strip(c["e"]), not neg
                if c is None or c.get("k") != "Bin" or c.get("op") not in ("<=", "==", ">=", "<", ">"):
                    continue
                def side(n):
                    n = strip(n)
                    if n.get("k") == "MCall" and not n.get("a") and strip(n.get("obj")).get("k") == "Member":
                        return strip(n["obj"])["n"], n.get("n")
                    return None
                l, r, op = side(c["lhs"]), side(c["rhs"]), c["op"]
                if neg:
                    op = {"<=": ">", ">=": "<", "<": ">=", ">": "<=", "==": "!="}[op]
                if l == (second, "get_num_nodes_domain") and r == (first, "get_num_nodes_image"):
                    l, r, op = r, l, {"<=": ">=", ">=": "<=", "<": ">", ">": "<", "==": "==", "!=": "!="}[op]
                if l == (first, "get_num_nodes_image") and r == (second, "get_num_nodes_domain"):
                    verdict = op in ("<=", "==", "<")
            if verdict is None:
                ck.incomplete(R, "%s: no constructor assertion relating %s.get_num_nodes_image() and %s.get_num_nodes_domain() found" % (cname, first, second))
            else:
                ck.ob(R, "%s/well-formed" % cname, verdict, "the constructor asserts a relation that %s %s.get_num_nodes_image() <= %s.get_num_nodes_domain() "
                      "(every image node of the first adjactor must be a domain node of the second: ImageIterator calls %s->image_begin(*cur1))" % (
                          "implies" if verdict else "does NOT imply", first, second, second), ctor[0].file, ctor[0].line)


# -------------------------------------------------------------------------------------------------

def run(tier):
    ck = Check("C19", tier)
    ck.rule("E2.safety", "every subscript A[e] / index argument / adjactor domain node has an index kind inside the extent kind of A: ranges from loop headers, "
            "element contracts and guards against extents from allocations, accessor contracts and the function's own XASSERTs "
            "(breaks for rectangular graphs |Dom| != |Img|, empty adjacency lists, permutations whose length differs from the graph)", 120)
    ck.rule("E2.adj-list", "an image iteration uses image_begin(n)/image_end(n) of the same adjactor and node; an offset segment uses P[n],P[n+1] of the same "
            "array and node (otherwise a different node's adjacency list is traversed)", 16)
    ck.rule("E2.unsigned-pred", "`E - c` on the unsigned length E of a Graph/Permutation array is dominated by a check E >= c "
            "(breaks for the empty graph / the empty permutation, which the classes construct and return)", 4)
    ck.rule("E13.render-dispatch", "every RenderType case of the two render constructors calls the render function whose result has the documented shape: "
            "`transpose` <-> domain/image swapped, `injectify` <-> duplicate filter, `_sorted` <-> sort_indices() (transposes are sorted by construction), "
            "adjactors passed in order (base.hpp RenderType documentation)", 16)
    ck.rule("E1.render-roles", "on every exit a render function leaves |_domain_ptr| = Dom+1 and _num_nodes_image = Img of the rendered relation: (Dom(adj1), Img(adjN)) "
            "or, transposed, (Img(adjN), Dom(adj1)); two exits never disagree; DynamicGraph::compose(adj) leaves (Dom(this), Img(adj)); the four DynamicGraph render functions likewise (breaks for rectangular adjactors)", 13)
    ck.rule("E2.coverage", "an array handed to the result is assigned on its whole extent on every path (loops over the extent, terminal offsets, zero-fill + prefix sum); "
            "otherwise a tail stays uninitialised for some size", 21)
    ck.rule("E3.two-pass", "the counting pass and the filling pass of a render function traverse the same iteration space with the same filter "
            "(identical loop nests, conditions and mask operations after removing the pass-specific actions); one store and one cursor advance per counted adjacency "
            "(otherwise overrun / uninitialised tail when duplicates or empty lists occur)", 8)
    ck.rule("E3.offsets", "offsets are consistent with the counts: plain - running count stored at _domain_ptr[node] before the node is counted, terminal offset, fill cursor "
            "starts at _domain_ptr[node]; transposed - zero-initialised counts at [x+1], prefix sum over [0,D), one cursor per node over [0,D) taken after the prefix sum, "
            "stored through the cursor of the counted node; offsets not modified afterwards; |_image_idx| = total count", 8)
    ck.rule("E2.value-kind", "the indices stored in _image_idx are image nodes of the result: image nodes of the (last) adjactor, resp. the ascending domain-node loop variable "
            "for transposed renders", 8)
    ck.rule("E3.mask-reset", "injectify renders: in both passes the duplicate mask is tested (== 0), marked (= 1) inside the test and reset (= 0) over the identical "
            "loop nest before the next domain node; mask zero-initialised over the image kind (a stale mark drops adjacencies of later nodes)", 8)
    ck.rule("E13.perm-dispatch", "every ConstrType case of Permutation(num_entries, constr_type, v) performs the documented conversion "
            "(perm: perm_pos := v; inv_perm: perm_pos[v[i]] := i; swap: swap_pos := v; inv_swap: identity + reverse swaps; identity; none) over [0,n) and finishes with "
            "the matching calc_*; inverse()/clone() construct with inv_perm/perm from perm_pos (a wrong arm yields a valid but different permutation)", 8)
    ck.rule("E2.perm-forms", "apply(y,x): forward gather y[i]=x[perm_pos[i]], inverse scatter y[perm_pos[i]]=x[i]; in-situ apply: same transpositions ascending / descending; "
            "concat: perm_pos[i] = p.perm_pos[perm_pos[i]] then calc_swap_from_perm; calc_perm_from_swap: identity then forward swaps (inverse must undo forward for every permutation)", 4)
    ck.rule("E7.greedy-colour", "greedy colouring: per node the mask is cleared, filled from the adjacency list of exactly the node that receives the colour, a used colour is chosen only "
            "if unmarked, else a new colour is opened (structural form of 'first colour not used by a neighbour')", 6)
    ck.rule("E7.cm-insert", "Cuthill-McKee: every node entered into the ordering is marked processed in the same block; "
            "neighbours only if unmarked and taken from the adjacency list of an ordered node (a node entered twice / unmarked makes the ordering non-injective); "
            "the slot is decided by E7.cm-slot", 2)
    ck.rule("E7.cm-root-guard", "every RootType takes its root candidates from a loop over all nodes under the not-yet-processed test", 3)
    ck.rule("E13.root-total", "every RootType finds a root whenever an unprocessed node is left: the extra selection condition holds for the first candidate "
            "(otherwise 'No root node found' aborts for graphs with isolated nodes / duplicated adjacencies)", 3)
    ck.rule("E7.cm-finalise", "the returned permutation's swap array is recomputed after the ordering is complete", 1)
    ck.rule("E7.cm-slot", "Cuthill-McKee stores every node at slot = number of nodes stored so far: `slot counter - #stored` is an invariant of the level counters "
            "(zone analysis of lvl1/lvl2/lvl3 over all paths incl. every exit of the level loop; breaks for graphs with several components, where a stale counter makes "
            "the next root overwrite an occupied slot)", 2)
    ck.rule("E7.iter-invariant", "CompositeAdjactor::ImageIterator: after every load / increment of the inner iterator each path to a return tests it against its end "
            "or re-positions it - 'dereferenceable or at end' (breaks for empty inner adjacency lists)", 3)
    ck.rule("E7.callee-precond", "length assertions at the entry of a member function called by a render constructor (sort_indices) are implied by what the render function "
            "just built; a length that is the number of counted adjacencies has no lower bound (relation without adjacencies)", 1)
    ck.rule("E3.perm-fill", "Graph(other, domain_perm, image_perm): pass 1 defines _domain_ptr as the running sum of the permuted row lengths; the fill pass visits the same "
            "rows/segments and its cursor is either a running counter from 0 advanced once per stored index or starts per row at the NEW _domain_ptr[row] "
            "(a cursor taken from the source layout misplaces rows of different length)", 1)
    ck.rule("E12.serial-layout", "Graph(buffer) reads what Graph::serialize wrote: header slots and payload sections agree symbolically (sizes, order, advance)", 7)
    ck.rule("E2.sort-segment", "sort_indices sorts exactly the adjacency list [P[i],P[i+1]) of every domain node: the sort is reached in every iteration of the loop over [0,Dom) "
            "(only nodes without adjacencies may be skipped; a `break` at an empty list leaves all later lists unsorted)", 1)
    ck.rule("E7.move-order", "move constructor / move assignment of the kernel/adjacency classes: every member of the target is taken from the source BEFORE that source member "
            "is reset or moved from (a read after the reset hands the target the reset value: the object is structurally valid but empty / inconsistent)", 6)
    ck.rule("E7.move-siblings", "move constructor and move assignment of one class transfer the same set of members", 3)
    ck.rule("E7.size-precond", "every call of a constructor / function of kernel/adjacency whose entry XASSERT requires a positive size parameter passes a provably positive "
            "argument or is control dependent on a check of that size (the classes construct and return empty objects, so `size()` alone is not positive): "
            "precondition and use live in different functions", 3)
    ck.rule("E1.composite-roles", "CompositeAdjactor (adjactor.hpp, the helper behind composite renders through a single adjactor): get_num_nodes_domain() is the domain count of the "
            "adjactor bound to the FIRST constructor parameter, get_num_nodes_image() the image count of the SECOND; the constructor's well-formedness assertion implies "
            "Img(first) <= Dom(second) (breaks for adjactors of different sizes: image indices beyond the reported image count)", 3)
    ck.rule("E7.alias-inplace", "a member function that overwrites this->A[i] in a loop while reading p.A[j] (j != i) of a parameter p of the same class must test / exclude "
            "p == *this (in-place composition reads entries it has already overwritten: Permutation::concat(p) with p aliasing the object)", 1)
    ck.rule("E3.mask-constant", "the duplicate mask of the injectify renders is a flag array: elements are only assigned constants (mark 1 / reset 0); arithmetic on an element of a "
            "narrow mask type (char / bool / short) is an occurrence counter that wraps and lets a node through again", 4)
    w = World(ck, tier)
    rule_safety(w)
    rule_pairs(w)
    rule_unsigned_pred(w)
    rule_renders(w)
    rule_coverage_misc(w)
    rule_permutation(w)
    rule_coloring(w)
    rule_cuthill(w)
    rule_cm_slots(w)
    rule_serial(w)
    rule_iter_invariant(w)
    rule_callee_precond(w)
    rule_dyn_compose(w)
    rule_perm_fill(w)
    rule_moves(w)
    rule_size_precond(w)
    rule_composite_roles(w)
    rule_alias_inplace(w)
    if w.norm.log:
        ck.note("read through normalisation (lib/norm_c12.py): " + "; ".join("%s: %s" % (k.replace("FEAT::Adjacency::", "")[:70], ", ".join(sorted(set(v)))) for k, v in sorted(w.norm.log.items()))[:1500])
    ck.assume("adjactor interface contract (adjactor.hpp): image_begin/image_end(n) take n < get_num_nodes_domain(), iteration yields indices < get_num_nodes_image(); "
              "Graph: |_domain_ptr| = num_nodes_domain+1 (when not empty), offsets monotone with _domain_ptr[num_nodes_domain] = |_image_idx|, image indices < num_nodes_image")
    ck.assume("Permutation arrays hold values < size(); the input array v of Permutation(num_entries, type, v) and the `order` array of Coloring(graph, order) have one entry per "
              "position with values < num_entries / < number of nodes (documented meaning of the parameters)")
    ck.assume("Graph(other, domain_perm, image_perm): domain_perm.size() = other's domain size, image_perm.size() = other's image size (parameter documentation; not asserted by the code)")
    ck.assume("Coloring(graph[, order]) and CuthillMcKee::compute(graph) work on a node-to-node adjacency graph: image set = domain set")
    ck.assume("equalities between sizes come only from the function's own XASSERTs, from constructions (vector(n), Graph(d,i,n), Permutation(n)) and from the class invariant "
              "stated by Permutation::size(); nothing else is assumed equal (so rectangular adjactors are covered)")
    ck.note("not decided: that a colouring is proper / an ordering or a permutation array is a bijection as VALUES; correctness of calc_swap_from_perm's cycle tracing; "
            "totals that depend on values (Graph(other,perms) index counter, create_partition_graph image counter, Cuthill-McKee level counters); sorting stability; "
            "extents of raw pointer arguments (x, y of Permutation::apply)")
    expl = ("Index-kind inference (E2) and two-pass agreement (E3) over the clang facts of kernel/adjacency: every integer size is a linear form over atomic size symbols "
            "(Dom(adj), Img(adj), size(vector), parameters), every index a half-open symbolic range from its loop header / element contract / guard, every array an extent from its "
            "allocation or accessor contract; equalities only from the code's own XASSERTs and constructions. On this model the check decides: subscript and adjactor-argument safety "
            "(%d sites), pairing of begin/end resp. segment bounds, guarded unsigned predecessors of lengths, for the 8 Graph::_render_* templates (instantiated for %s) the "
            "domain/image roles on every exit, the dispatch of every RenderType, coverage of _domain_ptr, count/fill agreement as equality of the passes' event traces after removing the "
            "pass-specific actions, offset/cursor discipline, the kind of the stored indices and the mask protocol of the injectify variants; further coverage of all other output arrays, "
            "the ConstrType dispatch table and the gather/scatter forms of Permutation, the structural greedy step of both colouring constructors, the insertion/marking discipline, root "
            "selection and finalisation of Cuthill-McKee, the writer/reader layout of Graph serialisation and the segment sorted by sort_indices. Holds for all sizes and patterns under the "
            "stated contracts; values (bijectivity, properness) are not decided." % (
                ck.rule_counts.get("E2.safety", 0), "Graph" + (", DynamicGraph, CompositeAdjactor<Graph,Graph>, IndexSet<4>" if tier == "thorough" else "")))
    return ck.finish(expl)
