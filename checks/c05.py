"""C05 — persisted containers and checkpoints read back equal to what was written.

Static clauses decided here (engines of DESIGN.md §3):

  E12  stream-layout agreement: an abstract interpretation of the *cursor* variables of
       Container::_serialize / _deserialize / _serialized_size (header slot <-> field binding, ordered
       metadata segments, alignment steps, raw and packed payload branches, byte accounting), of
       CheckpointControl::_collect_checkpoint_data / _restore_checkpoint_data / restore_object /
       save / load, and of the [u64 length][first][rest] checkpoint recursion of the meta containers;
  E12  vocabularies: FileMode case sets and (tag, DT, IT) of write_out / read_from, magic numbers and
       header words of the meta vectors, header lines of the meta matrices, MatrixMarket size line;
  E2   index kinds in the MatrixMarket reader (row_ptr subscripted by row-kind indices, defined on
       [0, rows]) and the Pack conversion loops / case tables;
  E4   recursion scheme of the meta vector stream IO (first, then rest, on both sides);
  E7   guards of direct _elements/_indices slot accesses in IO routines (empty containers).

No FEAT3 code is executed: everything is computed from the clang facts of tu/c05_io.cpp.

Before a shape-sensitive rule interprets a function, the function is normalised (lib/norm_c05.py): helpers of the same class / header
are inlined at statement level (bounded depth), std::copy / fill statements become loops, for / while / lock-step pointer loops become
`for(i = 0; i < N; ++i)`, switch and if-chains are read as the same decision groups, and the value of a local that is updated under
conditions - or returned by a pure helper - is a decision tree over canonical conditions that is evaluated per control path.  Whatever
is not understood after that (a view / cursor / the stream handed to an uninterpreted callee, a pointer cursor into the buffer, an
unevaluated term) is analysis-incomplete, never a violation.
"""
import copy
import re

import sympy as sp

import featlib
import norm_c05
from norm_c05 import NotRecognised
from featlib import Check, walk, render, is_call, rel

LAFEM = featlib.repo_path("kernel/lafem/")
FILES = (LAFEM + "|" + featlib.repo_path("kernel/util/pack") + "|" + featlib.repo_path("control/checkpoint_control")
         + "|" + featlib.repo_path("kernel/util/binary_stream") + "|" + featlib.repo_path("kernel/util/string"))


class Unknown(Exception):
    """construct the analysis does not model -> analysis incomplete (exit 2), never a verdict"""


# -------------------------------------------------------------------------------------------------
# small helpers on fact trees
# -------------------------------------------------------------------------------------------------

def strip_cast(n):
    while n is not None and n.get("k") == "Cast":
        n = n.get("e")
    return n


def pointee(t):
    t = (t or "").strip()
    t = re.sub(r"\*\s*const$", "*", t)        # T *const
    if not t.endswith("*"):
        return None
    t = t[:-1].strip()
    t = re.sub(r"^const\s+", "", t)
    t = re.sub(r"\s+const$", "", t)
    return t


def is_char_vector(t):
    return re.match(r"^(const )?std::vector<char(, std::allocator<char>\s*)?>( &)?$", (t or "").strip()) is not None


def targs_of(full):
    """template argument text of the last component of a qualified name: a::b<c>::f<x, y> -> 'x, y'"""
    if not full or not full.endswith(">"):
        return ""
    depth = 0
    for i in range(len(full) - 1, -1, -1):
        ch = full[i]
        if ch == ">":
            depth += 1
        elif ch == "<":
            depth -= 1
            if depth == 0:
                return full[i + 1:-1]
    return ""


def strip_targs(s):
    out, depth = [], 0
    for ch in s or "":
        if ch == "<":
            depth += 1
        elif ch == ">":
            depth -= 1
        elif depth == 0:
            out.append(ch)
    return "".join(out)


def stmts_of(n):
    if n is None:
        return []
    if n.get("k") == "Block":
        return list(n.get("s", []))
    return [n]


def parent_map(fn):
    par = {}
    for n in fn.nodes():
        for c in featlib.children(n):
            par[id(c)] = n
    return par


_SYMS = {}


def symbol(name):
    s = _SYMS.get(name)
    if s is None:
        s = sp.Symbol(name, positive=True, integer=True)
        _SYMS[name] = s
    return s


AL = sp.Function("AL")

# registries shared by all LayoutFn objects of one run (keyed by canonical text, which identifies the value)
_ENUMV = {}        # canonical text of an enumerator -> its integer value
_COND_PARTS = {}   # canonical text "(a != b)" -> (a, b)
_GV_REG = {}       # canonical text of a guarded value -> its decision tree (norm_c05.gv_*)
_EST_REG = {}
_FIELD_SLOT = {}   # field name of a header struct -> slot number (shared by writer and reader)      # canonical text of a Pack::estimate_size call -> dict(count, ptype)


# -------------------------------------------------------------------------------------------------
# E12 cursor machine for buffer (de)serialisers
# -------------------------------------------------------------------------------------------------

TRANSFER = {
    # callee (template arguments stripped) -> (buffer parameter, other pointer parameter, direction of the buffer)
    "memcpy": {"dst": 0, "src": 1, "bytes": 2},
    "FEAT::MemoryPool::copy": {"dst": 0, "src": 1, "count": 2},
    "FEAT::Pack::encode": {"dst": "buf", "src": "src", "count": "count", "buf_size": "buf_size", "pack_type": "pack_type", "swap": "swap_bytes", "tol": "tolerance"},
    "FEAT::Pack::decode": {"dst": "dst", "src": "buf", "count": "count", "buf_size": "buf_size", "pack_type": "pack_type", "swap": "swap_bytes"},
}


# class invariant of LAFEM::Container (every push_back to _elements/_indices is paired with one to the size vector;
# property C20's domain): the two vectors have the same number of entries.  Counts are compared modulo this equality.
COUNT_INVARIANT = {"#TC._elements_size": "#TC._elements", "#TC._indices_size": "#TC._indices"}


class State:
    def __init__(self):
        self.cur = {}        # cursor decl -> [unit or None, sympy position]
        self.acc = {}        # accumulator decl -> sympy
        self.header = {}     # slot -> dict(canon, sym, line)
        self.events = []
        self.conds = []      # [(canon, bool)]
        self.resize = None
        self.alloc = None
        self.ret = None
        self.problems = []   # unit-coherence findings: (key, ok, detail, line)

    def fork(self):
        s = State()
        s.cur = {k: list(v) for k, v in self.cur.items()}
        s.acc = dict(self.acc)
        s.header = dict(self.header)
        s.events = [dict(e) for e in self.events]
        s.conds = list(self.conds)
        s.resize, s.alloc, s.ret = self.resize, self.alloc, self.ret
        s.problems = list(self.problems)
        return s

    def label(self):
        return ",".join("%s=%s" % (c, "T" if b else "F") for c, b in self.conds) or "-"


class LayoutFn:
    """Abstract interpretation of one function that writes to / reads from a byte buffer through typed
    views (`reinterpret_cast<T*>(buf.data())`) and integer cursor variables.  The result per control
    path is the header-slot binding and the ordered list of segment / alignment / payload events with
    symbolic positions (sympy expressions over canonical count symbols)."""

    def __init__(self, fn, side, hsub=None, psub=None):
        self.fn = fn
        self.side = side          # 'w' writer, 'r' reader, 's' size function
        self.hsub = hsub or {}
        self.psub = psub or {}    # parameter index -> canonical text of the caller's argument
        self.alias = {}
        self.segvec = {}          # reader: local vector decl -> canonical SEGV name
        self._ph = set()          # locals currently rendered as placeholders (guarded-value evaluation)
        self.bound = {}           # locals whose value is known from outside (a word read from a file: the value the writer put there)
        self._hdepth = 0
        self.prescan()

    # ---- pre-scan --------------------------------------------------------------------------------
    def prescan(self):
        fn = self.fn
        self.decl = {}
        self.assigned = {}
        self.loopvars = set()
        self.params = {p["d"]: i for i, p in enumerate(fn.params)}
        self.ptype = {p["d"]: fn.type(p["t"]) for p in fn.params}
        for n in fn.nodes():
            k = n.get("k")
            if k == "Decl":
                for v in n["vars"]:
                    self.decl[v["d"]] = v
            elif k == "For":
                ini = n.get("init")
                if ini is not None and ini.get("k") == "Decl":
                    for v in ini["vars"]:
                        self.loopvars.add(v["d"])
            elif k == "ForRange":
                self.loopvars.add(n["var"]["d"])
                self.decl[n["var"]["d"]] = n["var"]
            elif k == "Assign":
                l = strip_cast(n["lhs"])
                if l.get("k") == "Ref" and l.get("dk") == "local":
                    self.assigned[l["d"]] = self.assigned.get(l["d"], 0) + 1
            elif k == "Un" and n.get("op") in ("++", "--"):
                l = strip_cast(n["e"])
                if l.get("k") == "Ref" and l.get("dk") == "local":
                    self.assigned[l["d"]] = self.assigned.get(l["d"], 0) + 1
        # buffer roots and typed views
        self.roots = set()
        for d, v in self.decl.items():
            if is_char_vector(fn.type(v.get("t"))):
                self.roots.add(d)
        for d, t in self.ptype.items():
            if is_char_vector(t):
                self.roots.add(d)
        self.views = {}
        changed = True
        while changed:
            changed = False
            for d, v in self.decl.items():
                if d in self.views or v.get("init") is None:
                    continue
                pt = pointee(fn.type(v.get("t")))
                if pt is None:
                    continue
                ini = strip_cast(v["init"])
                if ini.get("k") == "MCall" and ini.get("n") == "data" and self.is_root(ini.get("obj")):
                    self.views[d] = pt
                    changed = True
                elif ini.get("k") == "Ref" and ini.get("d") in self.views:
                    self.views[d] = pt
                    changed = True
        # offset views: constant pointer locals `T* p = view + off` / `&view[off]`; any other pointer local derived from the buffer is
        # tainted (a pointer cursor into the buffer is not modelled: every statement that uses it is analysis-incomplete)
        self.offviews, self.tainted = {}, set()
        for d, v in self.decl.items():
            if d in self.views or v.get("init") is None or pointee(fn.type(v.get("t"))) is None:
                continue
            mentions = any((x.get("k") == "Ref" and x.get("d") in self.views) or (x.get("k") == "MCall" and x.get("n") in ("data", "begin", "end") and self.is_root(x.get("obj")))
                           for x in walk(v["init"]))
            if not mentions:
                continue
            a = self.access(v["init"], resolve=False)
            if a is not None and a["addr"] and self.assigned.get(d, 0) == 0 and d not in self.loopvars and a["unit"] == pointee(fn.type(v.get("t"))):
                self.offviews[d] = a
            else:
                self.tainted.add(d)
        # cursors: non-loop integer locals used in subscripts of views / roots
        self.cursors = set()
        for n in fn.nodes():
            acc = self.access(n, resolve=False)
            if acc is None:
                continue
            for x in walk(acc["idx"]):
                if x.get("k") == "Ref" and x.get("dk") == "local" and x["d"] not in self.loopvars and x["d"] not in self.views:
                    if self.assigned.get(x["d"], 0) > 0 or True:
                        self.cursors.add(x["d"])
        # accumulators: integer locals updated with += that are not cursors
        self.accs = set()
        for n in fn.nodes():
            if n.get("k") == "Assign" and n.get("op") == "+=":
                l = strip_cast(n["lhs"])
                if l.get("k") == "Ref" and l.get("dk") == "local" and l["d"] not in self.cursors and l["d"] not in self.loopvars:
                    self.accs.add(l["d"])
        # the conversion container
        self.tc = set()
        for d, v in self.decl.items():
            if re.match(r"^FEAT::LAFEM::Container<.*>$", fn.type(v.get("t")) or ""):
                self.tc.add(d)

    def is_root(self, n):
        n = strip_cast(n)
        return n is not None and n.get("k") == "Ref" and n.get("d") in self.roots

    def const_local(self, d):
        v = self.decl.get(d)
        if d in getattr(self, "arrays", ()) or d in getattr(self, "records", ()):
            return False
        return (v is not None and v.get("init") is not None and self.assigned.get(d, 0) == 0
                and d not in self.loopvars and d not in self.cursors and d not in self.views and d not in self.accs)

    # ---- buffer accesses -------------------------------------------------------------------------
    def access(self, n, resolve=True):
        """n is `view[idx]`, `root[idx]`, or `&` of those (through casts and, if resolve, through
        constant locals) -> dict(unit, idx, addr) or None"""
        addr = False
        n = strip_cast(n)
        if n is None:
            return None
        if resolve and n.get("k") == "Ref" and n.get("dk") == "local" and self.const_local(n["d"]):
            return self.access(self.decl[n["d"]]["init"], resolve)
        if n.get("k") == "Un" and n.get("op") == "&" and not n.get("post"):
            addr = True
            n = strip_cast(n["e"])
        elif n.get("k") == "Un" and n.get("op") == "*" and not n.get("post"):
            # *(view + idx) is view[idx]
            inner = self.access(n["e"], resolve)
            if inner is not None and inner["addr"]:
                inner = dict(inner)
                inner["addr"] = False
                return inner
            return None
        if n.get("k") == "Bin" and n.get("op") == "+":
            # view + idx is &view[idx]
            for b, i_ in ((n["lhs"], n["rhs"]), (n["rhs"], n["lhs"])):
                b0 = strip_cast(b)
                if b0.get("k") == "Ref" and b0.get("d") in self.views and not pointee(self.fn.ntype(strip_cast(i_)) or ""):
                    return {"unit": self.views[b0["d"]], "idx": i_, "addr": True, "node": n}
                if b0.get("k") == "MCall" and b0.get("n") == "data" and not b0.get("a") and self.is_root(b0.get("obj")):
                    return {"unit": "char", "idx": i_, "addr": True, "node": n}
            return None
        if n.get("k") == "Index":
            b = strip_cast(n["b"])
            if b.get("k") == "Ref" and b.get("d") in self.views:
                return {"unit": self.views[b["d"]], "idx": n["idx"], "addr": addr, "node": n}
            if b.get("k") == "Ref" and b.get("d") in getattr(self, "offviews", {}):
                ov = self.offviews[b["d"]]
                return {"unit": ov["unit"], "idx": {"k": "Bin", "op": "+", "lhs": n["idx"], "rhs": ov["idx"], "l": n.get("l")}, "addr": addr, "node": n}
        if n.get("k") == "OpCall" and n.get("op") == "[]" and len(n.get("a", [])) == 2 and self.is_root(n["a"][0]):
            return {"unit": "char", "idx": n["a"][1], "addr": addr, "node": n}
        records = getattr(self, "records", None)
        if records and n.get("k") == "Member" and n.get("b") is not None and strip_cast(n["b"]).get("k") == "Ref" and strip_cast(n["b"]).get("d") in records:
            # a header struct: every field is a named slot
            slot = _FIELD_SLOT.setdefault(n.get("n"), 100 + len(_FIELD_SLOT))
            return {"unit": self.fn.ntype(n) or "field", "idx": {"k": "Int", "v": str(slot)}, "addr": addr, "node": n}
        arrays = getattr(self, "arrays", None)
        if arrays:
            # a typed header object: std::array<T, N> / T[N] subscripted directly
            b_, i_ = None, None
            if n.get("k") == "OpCall" and n.get("op") == "[]" and len(n.get("a", [])) == 2:
                b_, i_ = strip_cast(n["a"][0]), n["a"][1]
            elif n.get("k") == "MCall" and n.get("n") == "at" and len(n.get("a", [])) == 1 and n.get("obj") is not None:
                b_, i_ = strip_cast(n["obj"]), n["a"][0]
            elif n.get("k") == "Index":
                b_, i_ = strip_cast(n["b"]), n["idx"]
            if b_ is not None and b_.get("k") == "Ref" and b_.get("d") in arrays:
                return {"unit": arrays[b_["d"]][0], "idx": i_, "addr": addr, "node": n}
        return None

    def split_idx(self, idx, loopvar):
        """-> (constant int or None, uses loop var?, cursor decl or None)"""
        idx = strip_cast(idx)
        if idx.get("k") == "Int":
            return int(idx["v"]), False, None
        if idx.get("k") == "Ref":
            if idx.get("d") == loopvar:
                return None, True, None
            if idx.get("d") in self.cursors:
                return None, False, idx["d"]
        if idx.get("k") == "Bin" and idx.get("op") == "+":
            a, b = strip_cast(idx["lhs"]), strip_cast(idx["rhs"])
            ds = []
            for x in (a, b):
                if x.get("k") != "Ref":
                    raise Unknown("subscript %s" % render(idx))
                ds.append(x["d"])
            if loopvar in ds:
                other = ds[1 - ds.index(loopvar)]
                if other in self.cursors:
                    return None, True, other
        raise Unknown("buffer subscript '%s' is not <const>, <cursor> or <loop var>+<cursor>" % render(idx))

    # ---- canonical rendering ---------------------------------------------------------------------
    def canon(self, n, lv=None):
        n = strip_cast(n)
        if n is None:
            return ""
        k = n.get("k")
        c = lambda x: self.canon(x, lv)
        if k == "Int":
            return str(int(n["v"]))
        if k in ("Index", "OpCall", "Un"):
            a = self.access(n, resolve=False)
            if a is not None and strip_cast(a["idx"]).get("k") != "Int":
                return "%s@buffer<%s>" % ("&" if a["addr"] else "", a["unit"])
        if k in ("Float", "Bool", "Str", "Char", "Null"):
            return render(n)
        if k == "This":
            return "this"
        if k == "Ref":
            dk = n.get("dk")
            d = n.get("d")
            if dk == "local":
                if lv is not None and d in lv:
                    return "$i%d" % lv.index(d) if len(lv) > 1 else "$i"
                if d in self.tc:
                    return "TC"
                if d in self.segvec:
                    return self.segvec[d]
                if d in self.cursors:
                    raise Unknown("cursor '%s' used as a value in '%s'" % (n["n"], render(n)))
                if d in self._ph:
                    return norm_c05.GVEval.ph(d)
                if d in self.bound:
                    return self.bound[d]
                if self.const_local(d):
                    return c(self.decl[d]["init"])
                v = self.decl.get(d)
                if v is not None and v.get("init") is not None:
                    g = self.gvalue(d)
                    if g is not None:
                        return g
                    return "var{%s}" % c(v["init"])
                return "local{%s}" % self.fn.type(v.get("t") if v else None)
            if dk == "param":
                pi = self.params.get(d, -1)
                return self.psub.get(pi, "$p%d" % pi)
            if dk == "enum" and n.get("v") is not None and n.get("qn"):
                try:
                    _ENUMV[n["qn"]] = int(n["v"])
                except (TypeError, ValueError):
                    pass
            return n.get("qn") or n.get("n")
        if k == "Member":
            if getattr(self, "records", None):
                a = self.access(n, resolve=False)
                if a is not None and not a["addr"] and a["node"] is n:
                    kk = int(a["idx"]["v"])
                    return self.hsub.get(kk, "H%d?" % kk) if self.side == "r" else "H%d" % kk
            b = n.get("b")
            if b is None or strip_cast(b).get("k") == "This":
                return "this." + n["n"]
            return c(b) + "." + n["n"]
        if k == "Index" or (k in ("OpCall", "MCall") and getattr(self, "arrays", None)):
            a = self.access(n, resolve=False)
            if a is not None and not a["addr"] and a["node"] is n and strip_cast(a["idx"]).get("k") == "Int":
                kk = int(strip_cast(a["idx"])["v"])
                if self.side == "r":
                    return self.hsub.get(kk, "H%d?" % kk)
                return "H%d" % kk
            if k == "Index":
                return "%s[%s]" % (c(n["b"]), c(n["idx"]))
        if k == "MCall":
            nm = n.get("n") or n.get("callee", "").rsplit("::", 1)[-1]
            if n.get("a") and (n.get("obj") is None or strip_cast(n["obj"]).get("k") == "This"):
                hv = self.helper_value(n, lv)
                if hv is not None:
                    return hv
            o = c(n.get("obj")) if n.get("obj") is not None else "this"
            if not n.get("a") and nm not in ("size", "length", "data", "begin", "end"):
                g = self.getter_member(n)
                if g is not None:
                    return "%s.%s" % (o, g)
            if nm in ("size", "length") and not n.get("a"):
                return COUNT_INVARIANT.get("#" + o, "#" + o)
            if nm == "at" and len(n.get("a", [])) == 1:
                return "%s[%s]" % (o, c(n["a"][0]))
            return "%s.%s(%s)" % (o, nm, ",".join(c(a) for a in n.get("a", [])))
        if k == "OpCall":
            a = n.get("a", [])
            op = n.get("op")
            if op == "[]" and len(a) == 2:
                return "%s[%s]" % (c(a[0]), c(a[1]))
            if len(a) == 2:
                xs = [c(a[0]), c(a[1])]
                if op in ("|", "&", "==", "!=", "+", "*"):
                    xs.sort()
                return "(%s %s %s)" % (xs[0], op, xs[1])
            return "%s(%s)" % (n.get("cfull") or n.get("callee"), ",".join(c(x) for x in a))
        if k == "Call":
            hv = self.helper_value(n, lv)
            if hv is not None:
                return hv
            args = [c(x) for x in n.get("a", [])]
            text = "%s(%s)" % (n.get("cfull") or n.get("callee"), ",".join(args))
            if strip_targs(n.get("callee", "")) == "FEAT::Pack::estimate_size" and len(args) >= 2:
                pn = n.get("pn") or []
                ci = pn.index("count") if "count" in pn else 0
                ti = pn.index("type") if "type" in pn else (pn.index("pack_type") if "pack_type" in pn else 1)
                _EST_REG[text] = {"count": args[ci], "ptype": args[ti]}
            return text
        if k in ("Construct", "TempObj"):
            a = n.get("a", [])
            if len(a) == 1:
                return c(a[0])
            return "%s(%s)" % (n.get("ccls") or n.get("callee"), ",".join(c(x) for x in a))
        if k == "Bin":
            xs = [c(n["lhs"]), c(n["rhs"])]
            if n["op"] in ("+", "*", "==", "!=", "&", "|", "&&", "||"):
                xs.sort()
            return "(%s %s %s)" % (xs[0], n["op"], xs[1])
        if k == "Un":
            return "(%s%s)" % (n["op"], c(n["e"]))
        if k == "SizeOf":
            return "sizeof(%s)" % n.get("type")
        if k == "Cond":
            return "(%s ? %s : %s)" % (c(n["c"]), c(n["then"]), c(n["else"]))
        return render(n)

    # ---- guarded values: locals updated under conditions, pure helpers with several returns -------------------
    def gvalue(self, d):
        """canonical text of the value a non-constant local has after the top-level statements that define it
        (declaration, assignments, if / else-if chains of assignments), or None if it is defined in any other way"""
        cache = self.__dict__.setdefault("_gv_cache", {})
        if d in cache:
            return cache[d]
        cache[d] = None
        top = []

        def flat(ss):
            for x in ss:
                if x.get("k") == "Block":
                    flat(x.get("s", []))
                else:
                    top.append(x)
        flat(stmts_of(self.fn.body))

        def defines(x):
            if x.get("k") == "Var" and x.get("d") == d:
                return True
            if x.get("k") == "Assign":
                l = strip_cast(x["lhs"])
                return l.get("k") == "Ref" and l.get("d") == d
            if x.get("k") == "Un" and x.get("op") in ("++", "--", "&") and not (x.get("op") == "&" and x.get("post")):
                l = strip_cast(x["e"])
                return l.get("k") == "Ref" and l.get("d") == d
            return False

        def only_assigns(ss):
            for x in ss:
                k_ = x.get("k")
                if k_ == "Block":
                    if not only_assigns(x.get("s", [])):
                        return False
                elif k_ == "If":
                    if not only_assigns(stmts_of(x.get("then"))) or not only_assigns(stmts_of(x.get("else"))):
                        return False
                elif k_ == "Assign":
                    l = strip_cast(x["lhs"])
                    if not (l.get("k") == "Ref" and l.get("d") == d):
                        return False
                else:
                    return False
            return True
        feed, last = [], -1
        for i_, s_ in enumerate(top):
            if any(defines(x) for x in walk(s_)):
                k_ = s_.get("k")
                if k_ == "Decl" and len(s_["vars"]) == 1:
                    pass
                elif k_ == "Assign" and defines(s_):
                    pass
                elif k_ == "If" and only_assigns([s_]):
                    pass
                else:
                    return None
                feed.append(s_)
                last = i_
        if not feed or feed[0].get("k") != "Decl":
            return None
        # every use comes after the last defining statement
        for i_, s_ in enumerate(top[:last + 1]):
            if s_ in feed:
                continue
            if any(x.get("k") == "Ref" and x.get("d") == d for x in walk(s_)):
                return None
        ev = norm_c05.GVEval(lambda e: self.canon(e, None), self.norm_cond, [d])
        env = {}
        self._ph.add(d)
        try:
            r = ev.run(feed, env)
        except (NotRecognised, Unknown):
            return None
        finally:
            self._ph.discard(d)
        if r is not None or d not in env:
            return None
        text = norm_c05.gv_text(env[d])
        _GV_REG[text] = env[d]
        cache[d] = text
        return text

    def helper_value(self, call, lv=None):
        """canonical text of the value returned by a side-effect free helper of the repository (declarations of constants, if / return),
        with its parameters bound to the canonical arguments of the call; None if the callee is not of that form"""
        if self._hdepth >= 3:
            return None
        g = norm_c05.callee_function(self.fn.facts, call)
        if g is None or g.d.get("virtual") or not g.file.startswith(featlib.repo_path("")) or g.full == self.fn.full:
            return None
        if len(call.get("a", [])) != len(g.params):
            return None
        if strip_targs(call.get("callee", "")) in TRANSFER or strip_targs(call.get("callee", "")).startswith("FEAT::Pack::"):
            return None
        cache = self.fn.facts.__dict__.setdefault("_pure_helper", {})
        key = g.d.get("decl")
        if key not in cache:
            ok = len(norm_c05._returns(g.body)) >= 1
            for x in walk(g.body):
                k_ = x.get("k")
                if k_ in ("Assign", "For", "While", "Do", "ForRange", "Switch", "Try", "Lambda", "New", "Delete", "Throw") or (k_ == "Un" and x.get("op") in ("++", "--")):
                    ok = False
                if k_ == "OpCall" and x.get("op") in ("=", "+=", "-=", "++", "--", "<<", ">>") and not x.get("cconst"):
                    ok = False
            for x in stmts_of(g.body):
                if x.get("k") not in ("Decl", "If", "Return", "Block"):
                    ok = False
            cache[key] = ok
        if not cache[key]:
            return None
        try:
            psub = {i: self.canon(a, lv) for i, a in enumerate(call.get("a", []))}
            H = LayoutFn(g, self.side, self.hsub, psub)
            H._hdepth = self._hdepth + 1
            tracked = [d_ for d_ in H.decl if not H.const_local(d_)]
            ev = norm_c05.GVEval(lambda e: H.canon(e, None), H.norm_cond, tracked)
            H._ph |= set(tracked)
            r = ev.run(stmts_of(g.body), {})
        except (NotRecognised, Unknown):
            return None
        if r is None:
            return None
        text = norm_c05.gv_text(r)
        _GV_REG[text] = r
        return text

    def getter_member(self, call):
        """`obj.get_x()` whose body is `return this->_x;` -> '_x'"""
        facts = self.fn.facts
        key = call.get("callee")
        cache = facts.__dict__.setdefault("_getter_cache", {})
        if key not in cache:
            res = None
            for g in facts.functions:
                if g.qn == key and not g.params and g.tk != "pattern":
                    b = stmts_of(g.body)
                    if len(b) == 1 and b[0].get("k") == "Return" and b[0].get("e") is not None:
                        e = strip_cast(b[0]["e"])
                        if e.get("k") == "Member" and (e.get("b") is None or strip_cast(e["b"]).get("k") == "This"):
                            res = e["n"]
                    break
            cache[key] = res
        return cache[key]

    def acanon(self, n, lv=None):
        s = self.canon(n, lv)
        return self.alias.get(s, s)

    # ---- sympy values ----------------------------------------------------------------------------
    def sym(self, n, st, lv=None):
        n = strip_cast(n)
        k = n.get("k")
        if k == "Int":
            return sp.Integer(int(n["v"]))
        if k == "SizeOf":
            return symbol("sz[%s]" % n.get("type"))
        if k == "Bin" and n["op"] in ("+", "-", "*"):
            a, b = self.sym(n["lhs"], st, lv), self.sym(n["rhs"], st, lv)
            return a + b if n["op"] == "+" else a - b if n["op"] == "-" else a * b
        if k == "Ref" and n.get("dk") == "local":
            d = n["d"]
            if d in self.cursors:
                return st.cur[d][1]
            if d in self.accs and d in st.acc:
                return st.acc[d]
            if self.const_local(d) and d not in self.tc:
                return self.sym(self.decl[d]["init"], st, lv)
        if k in ("Construct", "TempObj") and len(n.get("a", [])) == 1:
            return self.sym(n["a"][0], st, lv)
        return symbol(self.acanon(n, lv))

    def sizeof_value(self, unit):
        for n in self.fn.nodes():
            if n.get("k") == "SizeOf" and n.get("type") == unit and n.get("v"):
                return int(n["v"])
        return {"char": 1}.get(unit)

    # ---- execution -------------------------------------------------------------------------------
    def relevant(self, n):
        """does the subtree update a cursor / accumulator, store to the buffer, or access it at a
        non-constant position?  (reads of constant header slots are collected separately)"""
        for x in walk(n):
            k = x.get("k")
            if k in ("Assign",) or (k == "Un" and x.get("op") in ("++", "--")):
                l = strip_cast(x["lhs"] if k == "Assign" else x["e"])
                if l.get("k") == "Ref" and (l.get("d") in self.cursors or l.get("d") in self.accs):
                    return True
                if k == "Assign" and self.access(l, resolve=False) is not None:
                    return True
            a = self.access(x, resolve=False)
            if a is not None and strip_cast(a["idx"]).get("k") != "Int":
                return True
            if k == "Return":
                return True
        if self.tainted and any(x.get("k") == "Ref" and x.get("d") in self.tainted for x in walk(n)):
            return True
        return self.escape_of(n) is not None

    def escape_of(self, n):
        """a view of the buffer, the buffer itself, an address into it, or (by mutable reference / pointer) a cursor or accumulator handed to
        a callee the analysis does not interpret: what that callee reads, writes or advances is unknown -> text describing it, else None"""
        for x in walk(n):
            if not is_call(x) or x.get("k") == "OpCall":
                continue
            base = strip_targs(x.get("callee", "") or "")
            if base in TRANSFER or base == "FEAT::assertion" or x.get("noreturn"):
                continue
            if x.get("k") == "MCall" and self.is_root(x.get("obj")):
                if x.get("n") not in ("data", "size", "resize", "reserve", "capacity", "empty", "begin", "end", "cbegin", "cend", "at", "shrink_to_fit"):
                    return "the buffer is modified by '%s'" % render(x)[:70]
                if x.get("n") in ("begin", "end", "cbegin", "cend"):
                    return "iterator '%s' into the buffer" % render(x)[:70]
                continue
            if x.get("k") in ("Construct", "TempObj") and len(x.get("a", [])) <= 1 and not is_char_vector(self.fn.ntype(x)):
                continue      # conversions such as Index(cursor)
            pts = x.get("pt") or []
            for i_, a in enumerate(x.get("a", [])):
                a0 = strip_cast(a)
                if a0 is None:
                    continue
                pt = self.fn.type(pts[i_]) if i_ < len(pts) and isinstance(pts[i_], int) else ""
                mut = pt.rstrip().endswith("&") and not pt.lstrip().startswith("const ") or (pt.rstrip().endswith("*"))
                if a0.get("k") == "Ref" and a0.get("d") in self.views:
                    return "typed view '%s' of the buffer passed to %s" % (a0.get("n"), base or render(x)[:40])
                if self.is_root(a0) and not (x.get("k") in ("Construct", "TempObj")):
                    return "the buffer passed to %s" % (base or render(x)[:40])
                if a0.get("k") == "Ref" and a0.get("dk") == "local" and (a0.get("d") in self.cursors or a0.get("d") in self.accs) and mut:
                    return "cursor '%s' passed by mutable reference to %s" % (a0.get("n"), base or render(x)[:40])
                try:
                    acc = self.access(a0)
                except Unknown:
                    acc = None
                if acc is not None and acc["addr"]:
                    return "address '%s' into the buffer passed to %s" % (render(a0)[:40], base or render(x)[:40])
                if a0.get("k") == "MCall" and a0.get("n") in ("data", "begin", "end") and self.is_root(a0.get("obj")):
                    return "pointer '%s' into the buffer passed to %s" % (render(a0)[:40], base or render(x)[:40])
        return None

    def run(self):
        st = State()
        return self.block(stmts_of(self.fn.body), [st])

    def block(self, stmts, states):
        for s in stmts:
            nxt = []
            for st in states:
                if st.ret is not None:
                    nxt.append(st)
                    continue
                nxt.extend(self.step(s, st))
            states = nxt
        return states

    def touch_unit(self, st, cd, unit, what, line):
        """bind / check the unit in which cursor cd currently counts"""
        cu = st.cur[cd][0]
        if cu is None:
            st.cur[cd][0] = unit
            return
        st.problems.append(("%s@%s" % (what, unit), cu == unit,
                            "cursor counts %s elements, but the buffer is accessed as %s[] there" % (cu, unit) if cu != unit else
                            "cursor unit %s = accessed view %s[]" % (cu, unit), line))

    def step(self, s, st):
        k = s.get("k")
        if k == "Block":
            return self.block(stmts_of(s), [st])
        if k == "Decl":
            for v in s["vars"]:
                d = v["d"]
                if d in self.cursors:
                    if v.get("init") is None:
                        raise Unknown("cursor '%s' declared without initialiser" % v["n"])
                    ini = strip_cast(v["init"])
                    if ini.get("k") == "Ref" and ini.get("d") in self.cursors:
                        st.cur[d] = list(st.cur[ini["d"]])
                    else:
                        aff = self.affine_cursor(v["init"], st)
                        st.cur[d] = aff if aff is not None else [None, self.sym(v["init"], st)]
                elif d in self.accs:
                    st.acc[d] = self.sym(v["init"], st) if v.get("init") is not None else sp.Integer(0)
                elif d in self.roots and v.get("init") is not None:
                    ini = v["init"]
                    if ini.get("k") in ("Construct", "TempObj") and ini.get("a"):
                        st.alloc = strip_cast(ini["a"][0])
                # reader: local vectors sized from the header are named when a segment fills them
            esc = self.escape_of(s)
            if esc is not None:
                raise Unknown("declaration '%s' at line %s (%s)" % (render(s)[:80], s.get("l"), esc))
            return [st]
        if k == "If":
            if not self.relevant(s):
                return [st]
            cc, pol = self.norm_cond(s["c"])
            a, b = st.fork(), st.fork()
            a.conds.append((cc, pol))
            b.conds.append((cc, not pol))
            ra = self.block(stmts_of(s.get("then")), [a])
            rb = self.block(stmts_of(s.get("else")), [b]) if s.get("else") is not None else [b]
            return ra + rb
        if k == "For":
            if not self.relevant(s):
                return [st]
            self.do_for(s, st)
            return [st]
        if k in ("While", "Do", "ForRange", "Switch"):
            if self.relevant(s):
                raise Unknown("%s statement touching the buffer / cursors at line %s" % (k, s.get("l")))
            return [st]
        if k == "Return":
            e = strip_cast(s.get("e"))
            st.ret = ("ret", self.sym(e, st) if (e is not None and e.get("k") == "Ref" and e.get("d") in self.accs) else None)
            return [st]
        if k == "Assign":
            self.do_assign(s, st, None, None)
            return [st]
        if k == "MCall" and s.get("n") == "resize" and self.is_root(s.get("obj")):
            st.resize = (self.canon(s["a"][0]), s.get("l"))
            return [st]
        if self.relevant(s):
            raise Unknown("statement '%s' touching the buffer / cursors at line %s%s" % (render(s)[:80], s.get("l"), self.why_escape(s)))
        return [st]

    def why_escape(self, s):
        e = self.escape_of(s)
        return " (%s)" % e if e else ""

    def norm_cond(self, c):
        """canonical text and polarity of a branch condition: `!x` and `a == b` are the negations of `x` and `a != b`"""
        c = strip_cast(c)
        if c.get("k") == "Un" and c.get("op") == "!":
            t, p_ = self.norm_cond(c["e"])
            return t, not p_
        if c.get("k") in ("Bin", "OpCall") and c.get("op") in ("==", "!="):
            c2 = dict(c)
            c2["op"] = "!="
            text = self.canon(c2)
            a_, b_ = (c["lhs"], c["rhs"]) if c.get("k") == "Bin" else (c["a"][0], c["a"][1])
            _COND_PARTS[text] = (self.canon(a_), self.canon(b_))
            return text, c.get("op") == "!="
        return self.canon(c), True

    def do_assign(self, s, st, lv, loop):
        l = strip_cast(s["lhs"])
        op = s["op"]
        if l.get("k") == "Ref" and l.get("d") in self.cursors:
            d = l["d"]
            if loop is not None:
                raise Unknown("cursor assignment inside a loop body not at its top level (line %s)" % s.get("l"))
            r = strip_cast(s["rhs"])
            if op == "+=":
                st.cur[d][1] = st.cur[d][1] + self.sym(s["rhs"], st)
                return
            if op == "=":
                if r.get("k") == "Ref" and r.get("d") in self.cursors:
                    st.cur[d] = list(st.cur[r["d"]])
                    return
                aff = self.affine_cursor(r, st)
                if aff is not None:
                    st.cur[d] = aff
                    return
                self.do_align(d, r, st, s.get("l"))
                return
            raise Unknown("cursor update '%s'" % render(s))
        if l.get("k") == "Ref" and l.get("d") in self.accs:
            d = l["d"]
            if op == "+=":
                st.acc[d] = st.acc.get(d, sp.Integer(0)) + self.sym(s["rhs"], st)
            elif op == "=":
                st.acc[d] = self.sym(s["rhs"], st)
            else:
                raise Unknown("accumulator update '%s'" % render(s))
            return
        a = self.access(l, resolve=False)
        if a is not None:
            const, uses_lv, cd = self.split_idx(a["idx"], None)
            if const is None:
                raise Unknown("store '%s' outside a loop" % render(s)[:80])
            st.header[const] = {"canon": self.canon(s["rhs"]), "sym": self.sym(s["rhs"], st), "line": s.get("l"), "unit": a["unit"],
                                "node": strip_cast(s["rhs"])}
            return
        if self.relevant(s):
            raise Unknown("assignment '%s' at line %s" % (render(s)[:80], s.get("l")))

    def affine_cursor(self, r, st):
        """r = <cursor> +/- <counts> (sums and differences only, every cursor in it counting the same unit) -> [unit, position], else None:
        the position another cursor has reached, shifted by a number of elements of the same unit"""
        r0 = r
        while r0 is not None and (r0.get("k") == "Cast" or (r0.get("k") in ("Construct", "TempObj") and len(r0.get("a", [])) == 1)):
            r0 = r0.get("e") if r0.get("k") == "Cast" else r0["a"][0]
        if r0 is None or r0.get("k") != "Bin" or r0.get("op") not in ("+", "-"):
            return None
        refs = []

        def ok(x):
            x = strip_cast(x)
            while x is not None and x.get("k") in ("Construct", "TempObj") and len(x.get("a", [])) == 1:
                x = strip_cast(x["a"][0])
            if x is None:
                return False
            if x.get("k") == "Bin":
                if x.get("op") in ("+", "-"):
                    return ok(x["lhs"]) and ok(x["rhs"])
                return not any(y.get("k") == "Ref" and y.get("d") in self.cursors for y in walk(x)) and x.get("op") == "*"
            if x.get("k") == "Ref" and x.get("d") in self.cursors:
                refs.append(x["d"])
                return True
            return not any(y.get("k") == "Ref" and y.get("d") in self.cursors for y in walk(x))
        if not ok(r0) or len(refs) != 1:
            return None
        units = set(st.cur[c_][0] for c_ in refs if c_ in st.cur)
        if len(units) != 1 or refs[0] not in st.cur:
            return None
        return [units.pop(), self.sym(r0, st)]

    def do_align(self, d, r, st, line):
        """cursor = (cursor * sizeof(A) + K) / sizeof(B)"""
        if not (r.get("k") == "Bin" and r.get("op") == "/"):
            raise Unknown("cursor assignment '%s' at line %s is not an alignment step" % (render(r)[:80], line))
        den = strip_cast(r["rhs"])
        if den.get("k") != "SizeOf":
            raise Unknown("alignment divisor '%s' is not a sizeof" % render(den))
        X = sp.Symbol("__cursor__")
        save = st.cur[d][1]
        st.cur[d][1] = X
        try:
            num = sp.expand(self.sym(r["lhs"], st))
        finally:
            st.cur[d][1] = save
        coeff = num.coeff(X, 1)
        rest = sp.expand(num - coeff * X)
        if rest.has(X) or not (coeff.is_Symbol and str(coeff).startswith("sz[")):
            raise Unknown("alignment numerator '%s' is not cursor*sizeof(A)+K" % render(r["lhs"])[:80])
        A = str(coeff)[3:-1]
        B = den.get("type")
        szB = symbol("sz[%s]" % B)
        K = sp.expand(rest - (szB - 1))
        cu = st.cur[d][0]
        if cu is None:
            st.cur[d][0] = cu = A
        st.problems.append(("align@%s->%s/from" % (A, B), cu == A,
                            ("cursor counts %s elements but is converted with factor sizeof(%s)" % (cu, A)) if cu != A else "converted from its own unit %s" % A, line))
        st.problems.append(("align@%s->%s/ceil" % (A, B), K == 0,
                            "aligned offset is (c*sizeof(%s)+%s)/sizeof(%s): %s" % (A, sp.sstr(rest), B, "round-up form" if K == 0 else
                            "not the round-up form c*sizeof(A)+sizeof(B)-1 (overlaps the previous segment or leaves the 16-byte padding bound)"), line))
        ev = {"kind": "align", "from": A, "to": B, "K": sp.sstr(K), "line": line, "base": save}
        st.events.append(ev)
        st.cur[d] = [B, AL(save, coeff, szB, K)]

    # ---- loops -----------------------------------------------------------------------------------
    def loop_header(self, s):
        ini, cond, inc = s.get("init"), strip_cast(s.get("c")), strip_cast(s.get("inc"))
        if ini is None or ini.get("k") != "Decl" or len(ini["vars"]) != 1:
            raise Unknown("loop at line %s has no single induction variable" % s.get("l"))
        v = ini["vars"][0]
        i0 = strip_cast(v.get("init"))
        while i0 is not None and i0.get("k") in ("Construct", "TempObj") and len(i0.get("a", [])) == 1:
            i0 = strip_cast(i0["a"][0])
        if i0 is None or i0.get("k") != "Int" or int(i0["v"]) != 0:
            raise Unknown("loop at line %s does not start at 0" % s.get("l"))
        if not (cond is not None and cond.get("k") == "Bin" and cond.get("op") == "<" and strip_cast(cond["lhs"]).get("d") == v["d"]):
            raise Unknown("loop condition '%s' at line %s is not i < N" % (render(cond), s.get("l")))
        if not (inc is not None and inc.get("k") == "Un" and inc.get("op") == "++" and strip_cast(inc["e"]).get("d") == v["d"]):
            raise Unknown("loop increment '%s' at line %s is not ++i" % (render(inc), s.get("l")))
        return v["d"], cond["rhs"]

    def find_transfer(self, n):
        out = []
        for x in walk(n):
            if x.get("k") == "Call":
                base = strip_targs(x.get("callee", ""))
                if base in TRANSFER and any(self.access(a) is not None for a in x.get("a", [])):
                    out.append(x)
        return out

    def do_for(self, s, st):
        lvd, bound = self.loop_header(s)
        lv = [lvd]
        bound_c = self.canon(bound)
        body = stmts_of(s["body"])
        line = s.get("l")
        # pass 1: cursor advances (top level of the body only)
        adv = {}
        for b in body:
            for x in walk(b):
                if x.get("k") == "Assign":
                    l = strip_cast(x["lhs"])
                    if l.get("k") == "Ref" and l.get("d") in self.cursors:
                        if x is not b or x["op"] != "+=" or l["d"] in adv:
                            raise Unknown("cursor '%s' is updated in the loop at line %s other than by one top-level +=" % (l["n"], line))
                        adv[l["d"]] = x
        advanced = set()
        pending = []   # events finalised after the body (aliases known)
        allocs = []
        for b in body:
            k = b.get("k")
            if k == "Assign":
                l = strip_cast(b["lhs"])
                if l.get("k") == "Ref" and l.get("d") in adv:
                    advanced.add(l["d"])
                    continue
                if l.get("k") == "Ref" and l.get("d") in self.accs:
                    if b["op"] != "+=":
                        raise Unknown("accumulator '%s' assigned in a loop" % l["n"])
                    pending.append(("acc", l["d"], b))
                    continue
                a = self.access(l, resolve=False)
                if a is not None:
                    const, uses_lv, cd = self.split_idx(a["idx"], lvd)
                    if cd is None or not uses_lv:
                        raise Unknown("store '%s' in the loop at line %s" % (render(b)[:80], line))
                    if cd in adv:
                        raise Unknown("store through an advancing cursor '%s'" % render(b)[:80])
                    self.touch_unit(st, cd, a["unit"], "seg-store", b.get("l"))
                    pending.append(("store", a["unit"], st.cur[cd][1], b["rhs"], b.get("l")))
                    continue
                # reader: local_vector[i] = view[i + cursor]
                ra = self.access(b["rhs"], resolve=False)
                if ra is not None:
                    const, uses_lv, cd = self.split_idx(ra["idx"], lvd)
                    tgt = strip_cast(b["lhs"])
                    ok = tgt.get("k") == "OpCall" and tgt.get("op") == "[]" and strip_cast(tgt["a"][1]).get("d") == lvd and strip_cast(tgt["a"][0]).get("k") == "Ref"
                    if cd is None or not uses_lv or not ok or cd in adv:
                        raise Unknown("load '%s' in the loop at line %s" % (render(b)[:80], line))
                    self.touch_unit(st, cd, ra["unit"], "seg-load", b.get("l"))
                    pending.append(("loadvec", ra["unit"], st.cur[cd][1], strip_cast(tgt["a"][0])["d"], b.get("l")))
                    continue
                if self.relevant(b):
                    raise Unknown("assignment '%s' in the loop at line %s" % (render(b)[:80], line))
                continue
            if k == "MCall" and b.get("n") == "push_back" and len(b.get("a", [])) == 1:
                arg = strip_cast(b["a"][0])
                ra = self.access(arg, resolve=False)
                if ra is not None:
                    const, uses_lv, cd = self.split_idx(ra["idx"], lvd)
                    if cd is None or not uses_lv or cd in adv:
                        raise Unknown("load '%s' in the loop at line %s" % (render(b)[:80], line))
                    self.touch_unit(st, cd, ra["unit"], "seg-load", b.get("l"))
                    pending.append(("load", ra["unit"], st.cur[cd][1], self.canon(b.get("obj"), lv) + "[$i]", b.get("l")))
                    continue
                if arg.get("k") == "Call" and strip_targs(arg.get("callee", "")).endswith("MemoryPool::allocate_memory"):
                    allocs.append({"field": self.canon(b.get("obj"), lv) + "[$i]", "type": targs_of(arg.get("cfull", "")),
                                   "count": self.canon(arg["a"][0], lv), "line": b.get("l")})
                    continue
            trs = self.find_transfer(b)
            if trs:
                if len(trs) != 1:
                    raise Unknown("several buffer transfers in one statement at line %s" % b.get("l"))
                pending.append(("transfer", trs[0], set(advanced), b.get("l")))
                continue
            if k == "Decl" and all(self.const_local(v["d"]) for v in b["vars"]):
                continue   # constant locals are inlined where they are used
            if k == "Call" and b.get("noreturn"):
                continue
            if k == "Call" and strip_targs(b.get("callee", "")) == "FEAT::assertion":
                continue
            if self.relevant(b):
                raise Unknown("statement '%s' in the loop at line %s" % (render(b)[:80], line))
        # several segments filled by one (fused) loop: their order in the stream is the order of their offsets, not of the statements
        slots = [i_ for i_, p_ in enumerate(pending) if p_[0] in ("store", "load", "loadvec")]
        if len(slots) > 1:
            segs_ = [pending[i_] for i_ in slots]
            n_sym = symbol(bound_c)
            ordered = []
            rest = list(segs_)
            while rest:
                pick = None
                for p_ in rest:
                    if not any(q_ is not p_ and q_[1] == p_[1] and seq(q_[2] + n_sym - p_[2]) for q_ in rest):
                        pick = p_
                        break
                if pick is None:
                    pick = rest[0]
                ordered.append(pick)
                rest.remove(pick)
            for i_, p_ in zip(slots, ordered):
                pending[i_] = p_
        # finalise
        advc = {}
        for cd, x in adv.items():
            advc[cd] = x
        # deferred stores first (they define aliases used by advances / transfers)
        for p in pending:
            if p[0] == "store":
                _, unit, base, rhs, l = p
                seg = None
                for n_, e in enumerate(st.events):
                    if e["kind"] == "seg" and e["unit"] == unit and sp.simplify(e["base"] - base) == 0:
                        seg = (n_, e)
                if seg is not None:
                    name = "SEGV%d[$i]" % seg[1]["ord"]
                    self.alias[self.canon(rhs, lv)] = name
                    seg[1]["deferred"] = {"value": self.canon(rhs, lv), "outer": bound_c, "line": l}
        for p in pending:
            if p[0] == "acc":
                _, d, b = p
                term = self.sym(b["rhs"], st, lv)
                st.acc[d] = st.acc.get(d, sp.Integer(0)) + self.total(term, bound_c)
            elif p[0] == "store":
                _, unit, base, rhs, l = p
                if any(e["kind"] == "seg" and e["unit"] == unit and sp.simplify(e["base"] - base) == 0 for e in st.events):
                    continue
                st.events.append({"kind": "seg", "ord": self.next_ord(st), "unit": unit, "base": base, "count": bound_c,
                                  "field": self.canon(rhs, lv), "line": l})
            elif p[0] == "load":
                _, unit, base, field, l = p
                st.events.append({"kind": "seg", "ord": self.next_ord(st), "unit": unit, "base": base, "count": bound_c, "field": field, "line": l})
            elif p[0] == "loadvec":
                _, unit, base, d, l = p
                o = self.next_ord(st)
                self.segvec[d] = "SEGV%d" % o
                st.events.append({"kind": "seg", "ord": o, "unit": unit, "base": base, "count": bound_c, "field": "SEGV%d[$i]" % o, "line": l})
            elif p[0] == "transfer":
                _, call, adv_before, l = p
                self.do_transfer(call, st, lv, bound_c, adv, adv_before, allocs, l)
        for cd, x in adv.items():
            term = self.sym(x["rhs"], st, lv)
            st.cur[cd][1] = st.cur[cd][1] + self.total(term, bound_c)

    def next_ord(self, st):
        return 1 + sum(1 for e in st.events if e["kind"] == "seg")

    def total(self, term, bound_c):
        """sum over the loop of a per-iteration term"""
        term = sp.expand(term)
        if not any(str(s).find("$i") >= 0 for s in term.free_symbols):
            return term * symbol(bound_c)
        out = sp.Integer(0)
        for t in sp.Add.make_args(term):
            coeff, rest = sp.Integer(1), []
            for f in sp.Mul.make_args(t):
                if any(str(s).find("$i") >= 0 for s in f.free_symbols):
                    rest.append(f)
                else:
                    coeff = coeff * f
            r = sp.Mul(*rest)
            out = out + coeff * symbol("SUM{%s|%s}" % (sp.sstr(r), bound_c))
        return out

    def do_transfer(self, call, st, lv, bound_c, adv, adv_before, allocs, line):
        base = strip_targs(call.get("callee", ""))
        spec = TRANSFER[base]
        pn = call.get("pn", [])
        args = call.get("a", [])

        def arg(role):
            key = spec.get(role)
            if key is None:
                return None
            if isinstance(key, int):
                return args[key] if key < len(args) else None
            if key in pn and pn.index(key) < len(args):
                return args[pn.index(key)]
            return None
        dst, src = arg("dst"), arg("src")
        ad, as_ = self.access(dst), self.access(src)
        if (ad is None) == (as_ is None):
            raise Unknown("transfer '%s' does not have exactly one buffer operand" % render(call)[:80])
        bufacc = ad or as_
        direction = "to-buffer" if ad is not None else "from-buffer"
        other = src if ad is not None else dst
        const, uses_lv, cd = self.split_idx(bufacc["idx"], lv[0])
        if cd is None or uses_lv or cd not in adv:
            raise Unknown("payload transfer '%s' is not addressed by an advancing cursor" % render(call)[:80])
        self.touch_unit(st, cd, bufacc["unit"], "payload", line)
        advn = adv[cd]
        adv_c = self.acanon(advn["rhs"], lv)
        pos = st.cur[cd][1] + symbol("PSUM{%s|%s}" % (adv_c, bound_c))
        if cd in adv_before:
            pos = pos + self.sym(advn["rhs"], st, lv)
        unit = bufacc["unit"]
        ev = {"kind": "payload", "unit": unit, "base": pos, "outer": bound_c, "adv": adv_c, "field": self.canon(other, lv),
              "dir": direction, "callee": base, "line": line, "T": targs_of(call.get("cfull", ""))}
        if base == "memcpy":
            nb = sp.expand(self.sym(arg("bytes"), st, lv))
            cnt = sp.simplify(nb / symbol("sz[%s]" % unit))
            ev["count"] = sp.sstr(cnt)
            ev["T"] = unit
        else:
            ev["count"] = self.acanon(arg("count"), lv)
        for role in ("buf_size", "pack_type", "swap"):
            a_ = arg(role)
            if a_ is not None:
                ev[role] = self.acanon(a_, lv)
        ev["packed"] = base.startswith("FEAT::Pack::")
        al = [a for a in allocs if a["field"] == ev["field"]]
        if al:
            ev["alloc"] = al[0]
        st.events.append(ev)


# -------------------------------------------------------------------------------------------------
# comparison of writer / reader layouts
# -------------------------------------------------------------------------------------------------

def seq(e):
    """sympy equality"""
    try:
        return sp.simplify(sp.expand(e)) == 0
    except Exception:
        return False


def ev_text(e):
    if e is None:
        return "<nothing>"
    if e["kind"] == "seg":
        return "segment %s[%s .. +%s] <-> %s" % (e["unit"], sp.sstr(e["base"]), e["count"], e["field"])
    if e["kind"] == "align":
        return "align %s -> %s (K%+d)" % (e["from"], e["to"], int(e["K"])) if re.match(r"^-?\d+$", e["K"]) else "align %s -> %s (K+%s)" % (e["from"], e["to"], e["K"])
    return "payload %s[%s] x %s per i < %s <-> %s via %s, advance %s" % (e["unit"], sp.sstr(e["base"]), e.get("count"), e["outer"], e["field"], e["callee"], e["adv"])


def compare_events(w, r):
    """-> (ok, detail) for one aligned pair of writer/reader events"""
    if w is None or r is None or w["kind"] != r["kind"]:
        return False, "writer has %s, reader has %s" % (ev_text(w), ev_text(r))
    diffs = []
    if w["kind"] == "align":
        for f in ("from", "to", "K"):
            if w[f] != r[f]:
                diffs.append("%s: writer %s / reader %s" % (f, w[f], r[f]))
        if not seq(w["base"] - r["base"]):
            diffs.append("position before the step: writer %s / reader %s" % (sp.sstr(w["base"]), sp.sstr(r["base"])))
    elif w["kind"] == "seg":
        if w["unit"] != r["unit"]:
            diffs.append("unit: writer %s / reader %s" % (w["unit"], r["unit"]))
        if not seq(w["base"] - r["base"]):
            diffs.append("offset: writer %s / reader %s" % (sp.sstr(w["base"]), sp.sstr(r["base"])))
        if w["count"] != r["count"]:
            diffs.append("length: writer %s / reader %s" % (w["count"], r["count"]))
        if not r["field"].startswith("SEGV") and w["field"] != r["field"]:
            diffs.append("field: writer stores %s / reader fills %s" % (w["field"], r["field"]))
    else:
        for f, nm in (("unit", "unit"), ("outer", "number of arrays"), ("adv", "advance per array"), ("field", "array"), ("count", "elements per array"),
                      ("T", "element type"), ("packed", "packed"), ("pack_type", "pack type"), ("swap", "byte swap")):
            if w.get(f) != r.get(f):
                diffs.append("%s: writer %s / reader %s" % (nm, w.get(f), r.get(f)))
        if not seq(w["base"] - r["base"]):
            diffs.append("offset: writer %s / reader %s" % (sp.sstr(w["base"]), sp.sstr(r["base"])))
        if w["dir"] != "to-buffer" or r["dir"] != "from-buffer":
            diffs.append("direction: writer %s / reader %s" % (w["dir"], r["dir"]))
    if diffs:
        return False, "; ".join(diffs) + "  [writer line %s: %s | reader line %s: %s]" % (w["line"], ev_text(w), r["line"], ev_text(r))
    return True, ev_text(w)


def ev_key(e):
    if e["kind"] == "seg":
        return "seg%d:%s" % (e["ord"], e["field"].replace("[$i]", ""))
    if e["kind"] == "align":
        return "align:%s->%s" % (e["from"], e["to"])
    return "payload:%s" % e["field"].replace("[$i]", "")


def path_label(conds):
    out = []
    for c, b in conds:
        m = re.search(r"!= \S*::(\w+)_off\)$", c) or re.search(r"^\(\S*::(\w+)_off != ", c)
        if m:
            out.append("%s:%s" % (m.group(1), "packed" if b else "raw"))
        else:
            out.append("%s%s" % ("" if b else "not ", c))
    return ",".join(out) or "-"


# -------------------------------------------------------------------------------------------------
# clause 1a: Container::_serialize / _deserialize / _serialized_size
# -------------------------------------------------------------------------------------------------

def header_beliefs(R):
    """what the reader assumes about each constant header slot it reads: slot -> [(kind, value, line)]"""
    fn = R.fn
    par = parent_map(fn)
    out = {}
    for n in fn.nodes():
        a = R.access(n, resolve=False) if (n.get("k") == "Index" or (getattr(R, "arrays", None) and n.get("k") in ("OpCall", "MCall")) or (getattr(R, "records", None) and n.get("k") == "Member")) else None
        if a is None or a["addr"] or a["node"] is not n or strip_cast(a["idx"]).get("k") != "Int":
            continue
        k = int(strip_cast(a["idx"])["v"])
        p = par.get(id(n))
        if p is not None and p.get("k") == "Assign" and strip_cast(p["lhs"]) is n:
            continue
        def climb(n0, depth=0):
            """what the context of one use of the header word (or of a constant local holding it) says about it -> [beliefs]"""
            bel = None
            x = n0
            while True:
                p = par.get(id(x))
                if p is None:
                    break
                pk = p.get("k")
                if pk == "Call" and strip_targs(p.get("callee", "")) == "FEAT::assertion":
                    e = strip_cast(p["a"][0])
                    if e.get("k") == "Bin" and e.get("op") == "==":
                        sides = [e["lhs"], e["rhs"]]
                        mine = [sd for sd in sides if any(y is n0 for y in walk(sd))]
                        other = [sd for sd in sides if sd not in mine]
                        if len(mine) == 1 and len(other) == 1:
                            o = strip_cast(other[0])
                            if strip_cast(mine[0]) is n0:
                                bel = ("equals", R.canon(o), p.get("l"))
                            elif o.get("k") == "Ref" and o.get("qn"):
                                bel = ("describes", o["qn"].rsplit("::", 1)[0], p.get("l"))
                    break
                if pk == "If" and any(y is n0 for y in walk(p.get("c"))):
                    so = [y for y in walk(p["c"]) if y.get("k") == "SizeOf"]
                    if len(so) == 1:
                        bel = ("describes-type", so[0].get("type"), p.get("l"))
                    break
                if pk == "For" and any(y is n0 for y in walk(p.get("c"))):
                    targets = set()
                    for y in walk(p.get("body")):
                        if y.get("k") == "MCall" and y.get("n") == "push_back":
                            t_ = "#" + R.canon(y.get("obj"))
                            targets.add(COUNT_INVARIANT.get(t_, t_))
                        if y.get("k") == "Assign":
                            l = strip_cast(y["lhs"])
                            if l.get("k") == "OpCall" and l.get("op") == "[]" and strip_cast(l["a"][0]).get("d") in R.segvec:
                                targets.add("local")
                    real = targets - {"local"}
                    if targets == {"local"}:
                        bel = ("extent", None, p.get("l"))
                    elif len(real) == 1:
                        # a fused loop may fill a local table besides the container's vector: the count belongs to the vector
                        bel = ("count", sorted(real)[0], p.get("l"))
                    break
                if pk == "Decl":
                    bel = ("flows", None, p.get("l"))
                    break
                if pk == "Var":
                    vt = fn.type(p.get("t")) or ""
                    if vt.startswith("std::vector"):
                        bel = ("extent", None, p.get("l"))
                    elif depth < 3 and R.const_local(p.get("d")) and strip_cast(p.get("init")) is not None and any(y is n0 for y in walk(p.get("init"))) \
                            and (strip_cast(p["init"]) is n0 or R.canon(p["init"]) == R.canon(n0)):
                        # a named constant holding the header word: what its uses say
                        sub = []
                        for u in fn.nodes():
                            if u.get("k") == "Ref" and u.get("d") == p.get("d"):
                                sub.extend(climb(u, depth + 1))
                        return sub or [("flows", None, p.get("l"))]
                    else:
                        bel = ("flows", None, p.get("l"))
                    break
                if pk == "Assign" and strip_cast(p["lhs"]).get("d") in R.cursors:
                    bel = ("advance", None, p.get("l"))
                    break
                x = p
            if bel is None and depth > 0:
                return [("flows", None, n0.get("l"))]       # a use of the named constant in a condition / expression
            return [bel] if bel is not None else [("?", render(par.get(id(n0), n0))[:80], n0.get("l"))]
        out.setdefault(k, []).extend(climb(n))

    return out


def rank_keys(items):
    """items: [(what, line, ...)] -> stable ordinal per (what) by source order"""
    seen = {}
    out = []
    for it in sorted(set((w, l) for w, l in items), key=lambda t: (t[0], t[1] or 0)):
        seen[it[0]] = seen.get(it[0], 0) + 1
        out.append((it, "%s#%d" % (it[0], seen[it[0]])))
    return dict(out)


def bytes_of_events(L, st, exact):
    """sum of the bytes of all segments / payloads of one path (exact: bytes really written; otherwise the
    writer's own upper bound for packed arrays, i.e. the buffer size it hands to Pack::encode)"""
    tot = sp.Integer(0)
    for e in st.events:
        if e["kind"] == "seg":
            tot += symbol(e["count"]) * symbol("sz[%s]" % e["unit"])
        elif e["kind"] == "payload":
            if e["packed"] and not exact:
                tot += symbol("SUM{%s|%s}" % (e.get("buf_size"), e["outer"]))
            elif e["packed"]:
                tot += symbol("SUM{%s|%s}" % (e["adv"], e["outer"])) * symbol("sz[%s]" % e["unit"])
            else:
                tot += symbol("SUM{%s|%s}" % (e["count"], e["outer"])) * symbol("sz[%s]" % e["unit"])
    return tot


def align_allowance(L, st):
    tot = 0
    for e in st.events:
        if e["kind"] == "align":
            a, b = L.sizeof_value(e["from"]), L.sizeof_value(e["to"])
            if a is None or b is None:
                return None
            if a % b != 0:
                tot += b - 1
    return tot


def path_decider(conds):
    """conds: [(canonical condition text, polarity)] of one control path -> decide(text) -> True / False / None.
    Besides the conditions themselves it decides `X != E` for an enumerator E when the path fixes X == E' (distinct enumerators
    of one enum have distinct values, taken from the facts)."""
    fixed = {t: p for t, p in conds}
    equal = {}     # canonical operand -> enumerator it equals on this path
    for t, p in conds:
        if not p and t in _COND_PARTS:
            a, b = _COND_PARTS[t]
            if b in _ENUMV:
                equal[a] = b
            elif a in _ENUMV:
                equal[b] = a

    def decide(text):
        if text in fixed:
            return fixed[text]
        parts = _COND_PARTS.get(text)
        if parts is None:
            return None
        a, b = parts
        for x, e in ((a, b), (b, a)):
            if e in _ENUMV and x in equal:
                return _ENUMV[equal[x]] != _ENUMV[e]
        return None
    return decide


def slack_verdict(D, allow):
    """D = provided - needed bytes.  True: a constant >= the alignment slack; False: a definite shortfall (constant too small, or a negative
    multiple of a count of the container: fails for containers with enough arrays / scalars); None: contains terms the analysis cannot sign"""
    if allow is None:
        return None
    D = sp.expand(D)
    if D.is_Integer:
        return int(D) >= allow and int(D) >= 0
    def known(s_):
        t = str(s_)
        if t.startswith(("#", "sz[")):
            return True
        # sums of entries of the container's own size tables over its own arrays; every other summand (calls, unevaluated
        # pack types) has no sign the analysis knows
        return re.match(r"^SUM\{[\w.]+\[\$i\]\|#[\w.]+\}$", t) is not None
    if not all(known(s_) for s_ in D.free_symbols):
        return None
    neg = False
    for t in sp.Add.make_args(D):
        c, _ = t.as_coeff_Mul()
        if t.free_symbols and c < 0:
            neg = True
    if neg:
        return False
    const = [t for t in sp.Add.make_args(D) if not t.free_symbols]
    c0 = int(const[0]) if const else 0
    return c0 >= allow     # surplus terms only add slack


SERIAL_KEEP = ("_serialized_size", "_serialize", "_deserialize", "assign", "clone", "convert", "allocate_memory", "release_memory")


def SERIAL_INLINE(call, g):
    """helpers the (de)serialisers of LAFEM::Container may be split into: members of the same class template called on this, static
    members and free functions defined in the same header; never the anchored functions themselves or what the rules interpret directly"""
    if g.name in SERIAL_KEEP or strip_targs(g.full) in TRANSFER or g.full.startswith("FEAT::Pack::") or g.full.startswith("FEAT::MemoryPool"):
        return False
    return g.file.endswith("kernel/lafem/container.hpp")


def check_container_serializer(ck, facts, cls_re, targs):
    """E12 on one instantiation Container<DT,IT>::_serialize<DT2,IT2> / _deserialize<DT2,IT2> / _serialized_size<DT2,IT2>"""
    fs = [f for f in facts.functions if f.tk != "pattern" and re.search(cls_re, f.cls) and f.full.endswith(targs)]
    inst = "%s::%s" % (short_cls(fs[0].cls) if fs else "Container", targs)

    def pick(name, pred):
        c = [f for f in fs if f.name == name and pred(f)]
        return c[0] if c else None
    w = pick("_serialize", lambda f: len(f.params) == 2 and "SerialConfig" in f.type(f.params[1]["t"]))
    r = pick("_deserialize", lambda f: len(f.params) == 2 and is_char_vector(f.type(f.params[1]["t"])))
    sz = pick("_serialized_size", lambda f: True)
    ws_ = pick("_serialize", lambda f: len(f.params) == 3)
    rs_ = pick("_deserialize", lambda f: len(f.params) == 2 and "istream" in f.type(f.params[1]["t"]))
    if w is None or r is None or sz is None:
        ck.incomplete("E12.header-slots", "%s: _serialize/_deserialize/_serialized_size instantiation %s not found in the driver TU" % (inst, targs))
        return
    # helpers of the class are inlined (bounded depth), std::copy / fill statements and while / pointer loops are brought to index loops
    w, r, sz = (norm_c05.normalized(facts, f_, inline=SERIAL_INLINE) for f_ in (w, r, sz))
    try:
        W = LayoutFn(w, "w")
        wpaths = W.run()
        hdr = wpaths[0].header
        hsub = {k: h["canon"] for k, h in hdr.items()}
        R = LayoutFn(r, "r", hsub)
        rpaths = R.run()
    except Unknown as e:
        ck.incomplete("E12.segments", "%s: %s" % (inst, e))
        return

    # ---- header slots ------------------------------------------------------------------------------
    bel = header_beliefs(R)
    for k in sorted(bel):
        key = "%s/slot%d" % (inst, k)
        wh = hdr.get(k)
        line = bel[k][0][2]
        if wh is None:
            ck.ob("E12.header-slots", key, False, "_deserialize reads header slot %d which _serialize never writes" % k, r.file, line)
            continue
        bad, notes = [], []
        for kind, val, l in bel[k]:
            if kind == "?":
                ck.incomplete("E12.header-slots", "%s: use of header slot %d not understood: %s (line %s)" % (inst, k, val, l))
            elif kind == "equals":
                (notes if val == wh["canon"] else bad).append("reader compares it with %s, writer stores %s" % (val, wh["canon"]))
            elif kind == "describes":
                wc = wh["node"].get("ccls") if wh["node"].get("k") == "Call" else None
                (notes if wc == val else bad).append("reader checks it against %s, writer stores %s" % (val, wh["canon"]))
            elif kind == "describes-type":
                wc = wh["node"].get("ccls") if wh["node"].get("k") == "Call" else None
                (notes if wc is not None and targs_of(wc) == val else bad).append("reader relates it to sizeof(%s), writer stores %s" % (val, wh["canon"]))
            elif kind == "count":
                (notes if val == wh["canon"] else bad).append("reader uses it as %s, writer stores %s" % (val, wh["canon"]))
            elif kind == "flows":
                notes.append("flows into the reader's branch conditions as %s" % wh["canon"])
        ck.ob("E12.header-slots", key, not bad, "; ".join(bad or notes[:2]) or "writer stores %s" % wh["canon"], r.file, line,
              sample={"slot": k, "writer": wh["canon"], "reader": [b[:2] for b in bel[k]]})
    nslots = (max(hdr) + 1) if hdr else 0
    ck.ob("E12.header-slots", "%s/slots-contiguous" % inst, sorted(hdr) == list(range(nslots)),
          "header slots written: %s" % sorted(hdr), w.file, w.line, trivial=True)

    # ---- segments, path by path ----------------------------------------------------------------------
    wp = {tuple(sorted(st.conds)): st for st in wpaths}
    rp = {tuple(sorted(st.conds)): st for st in rpaths}
    if set(wp) != set(rp):
        # the two functions branch on conditions that cannot be aligned (after substituting the writer's header fields and normalising
        # negations): which writer branch corresponds to which reader branch is then unknown - not a verdict
        ck.incomplete("E12.segments", "%s: branch conditions of _serialize {%s} and _deserialize {%s} cannot be aligned" % (
            inst, "; ".join(sorted(set(c for k_ in wp for c, _ in k_))), "; ".join(sorted(set(c for k_ in rp for c, _ in k_)))))
        return
    for conds in sorted(set(wp) | set(rp)):
        lab = path_label(conds)
        a, b = wp.get(conds), rp.get(conds)
        n = max(len(a.events), len(b.events))
        for i in range(n):
            we = a.events[i] if i < len(a.events) else None
            re_ = b.events[i] if i < len(b.events) else None
            ok, detail = compare_events(we, re_)
            base = we or re_
            ck.ob("E12.segments", "%s/[%s]/%d:%s" % (inst, lab, i, ev_key(base)), ok, detail + ("" if ok else "  (first divergence on this branch; later events are not compared)"),
                  (r if re_ else w).file, (re_ or we)["line"], sample={"writer": ev_text(we), "reader": ev_text(re_)})
            if not ok:
                break
        # the first segment starts right behind the header
        segs = [e for e in a.events if e["kind"] == "seg"]
        if segs:
            ck.ob("E12.segments", "%s/[%s]/first-offset" % (inst, lab), seq(segs[0]["base"] - nslots),
                  "first segment starts at word %s, header has %d words" % (sp.sstr(segs[0]["base"]), nslots), w.file, segs[0]["line"], trivial=True)
        # reader: every array is allocated with the extent and type that is transferred into it
        for e in b.events:
            if e["kind"] != "payload":
                continue
            al = e.get("alloc")
            key = "%s/[%s]/%s" % (inst, lab, e["field"].replace("[$i]", ""))
            if al is None:
                ck.incomplete("E2.alloc-extent", "%s: no allocate_memory for %s recognised in the transfer loop (allocated by an unmodelled construct?)" % (key, e["field"]))
            else:
                ok = al["count"] == e["count"] and (al["type"] == e["T"] or not e["T"])
                ck.ob("E2.alloc-extent", key, ok, "allocate_memory<%s>(%s) receives %s x %s" % (al["type"], al["count"], e["count"], e["T"] or e["unit"]), r.file, al["line"])

    # ---- unit coherence ----------------------------------------------------------------------------
    for L, paths, f, side in ((W, wpaths, w, "writer"), (R, rpaths, r, "reader")):
        allp = []
        for st in paths:
            allp.extend(st.problems)
        ranks = rank_keys([(p[0], p[3]) for p in allp])
        done = set()
        for what, ok, detail, line in allp:
            key = "%s/%s/%s" % (inst, side, ranks[(what, line)])
            if (key, ok) in done:
                continue
            done.add((key, ok))
            ck.ob("E12.unit-coherence", key, ok, detail, f.file, line)

    # ---- byte accounting ---------------------------------------------------------------------------
    size_call = None
    for st in wpaths[:1]:
        al = st.alloc
        if al is not None:
            al0 = al
            if al0.get("k") == "Ref" and al0.get("dk") == "local" and W.const_local(al0["d"]):
                al0 = strip_cast(W.decl[al0["d"]]["init"])
            if al0.get("k") in ("MCall", "Call") and (al0.get("callee", "").endswith("::_serialized_size")):
                size_call = al0
    if size_call is None:
        ck.incomplete("E12.size-accounts", "%s: the buffer of _serialize is not allocated with _serialized_size(...)" % inst)
        return
    same_t = targs_of(size_call.get("cfull", "")) == targs.strip("<>")
    ck.ob("E12.size-accounts", "%s/alloc-call" % inst, same_t, "buffer allocated with %s inside _serialize%s" % (size_call.get("cfull"), targs), w.file, size_call.get("l"), trivial=True)
    try:
        psub = {i: W.canon(a) for i, a in enumerate(size_call.get("a", []))}
        S = LayoutFn(sz, "s", psub=psub)
        spaths = S.run()
    except Unknown as e:
        ck.incomplete("E12.size-accounts", "%s: _serialized_size: %s" % (inst, e))
        return
    if len(spaths) != 1 or spaths[0].ret is None or spaths[0].ret[1] is None:
        ck.incomplete("E12.size-accounts", "%s: _serialized_size does not fold to one symbolic sum" % inst)
        return
    Sexpr = sp.expand(spaths[0].ret[1])
    ck.assume("class invariant of LAFEM::Container: _elements.size() == _elements_size.size() and _indices.size() == _indices_size.size() (used only to relate the loops of _serialized_size to those of _serialize)")
    ck.assume("Pack::estimate_size(n, deduct_type<T>()) = n*sizeof(T) for an uncompressed pack type (checked separately by the Pack rules); Pack::encode writes at most the buffer size it is given")
    for st in wpaths:
        lab = path_label(st.conds)
        allow = align_allowance(W, st)
        ub = sp.expand(bytes_of_events(W, st, exact=False) + nslots * symbol("sz[%s]" % (hdr[0]["unit"] if 0 in hdr else "std::uint64_t")))
        exact = sp.expand(bytes_of_events(W, st, exact=True) + nslots * symbol("sz[%s]" % (hdr[0]["unit"] if 0 in hdr else "std::uint64_t")))
        # relate the size function's loops to the payload loops of this path: the pack type handed to Pack::estimate_size is evaluated
        # on this compression branch (decision tree over the same conditions the branch was entered under); where it is the plain
        # raw type deduct_type<T>() the estimate is count * sizeof(T) (stated assumption).  Anything else stays an unknown term.
        sub = {}
        decide = path_decider(st.conds)
        for sy in Sexpr.free_symbols:
            m = re.match(r"^SUM\{(.*)\|([^|]*)\}$", str(sy))
            info = _EST_REG.get(m.group(1)) if m else None
            if info is None:
                continue
            outer = m.group(2)
            tree = _GV_REG.get(info["ptype"], norm_c05.gv_leaf(info["ptype"]))
            ptxt = norm_c05.gv_text(norm_c05.gv_prune(tree, decide))
            m2 = re.match(r"^FEAT::Pack::deduct_type<(.*)>\(\)$", ptxt)
            if not m2:
                continue
            for e in st.events:
                if e["kind"] == "payload" and not e["packed"] and e["count"] == info["count"] and e["outer"] == outer:
                    sub[sy] = symbol("SUM{%s|%s}" % (info["count"], outer)) * symbol("sz[%s]" % m2.group(1))
        D = sp.simplify(sp.expand(Sexpr.subs(sub) - ub))
        verdict = slack_verdict(D, allow)
        if verdict is None:
            ck.incomplete("E12.size-accounts", "%s/[%s]: _serialized_size - bytes written = %s could not be reduced to counts of the container (an unmodelled term on either side)" % (inst, lab, sp.sstr(D)))
            continue
        ok = verdict
        ck.ob("E12.size-accounts", "%s/[%s]/allocated" % (inst, lab), bool(ok),
              "_serialized_size - bytes written = %s (needs a constant >= %s bytes of alignment slack)" % (sp.sstr(D), allow), sz.file, sz.line,
              sample={"size": sp.sstr(Sexpr), "written": sp.sstr(ub)})
        h0 = st.header.get(0)
        if h0 is None or st.resize is None:
            ck.incomplete("E12.size-accounts", "%s: total length slot / final resize not found" % inst)
            continue
        D2 = sp.simplify(sp.expand(h0["sym"] - exact))
        v2 = slack_verdict(D2, allow)
        if v2 is None:
            ck.incomplete("E12.size-accounts", "%s/[%s]: length word - bytes written = %s could not be reduced to counts of the container" % (inst, lab, sp.sstr(D2)))
            continue
        if st.resize[0] != "H0":
            ck.incomplete("E12.size-accounts", "%s/[%s]: the result is resized to '%s', not to the stored length word" % (inst, lab, st.resize[0]))
            continue
        ok2 = v2
        ck.ob("E12.size-accounts", "%s/[%s]/length-slot" % (inst, lab), bool(ok2),
              "stream length stored in slot 0 - bytes written = %s (needs a constant >= %s), result resized to %s" % (sp.sstr(D2), allow, st.resize[0]), w.file, h0["line"])

    # ---- stream variants (instantiated only for the type parameters the file modes use) -------------------
    if ws_ is not None and rs_ is not None:
        check_stream_variants(ck, inst, targs, ws_, rs_)


def check_stream_variants(ck, inst, targs, ws_, rs_):
    """_serialize(mode, ostream, config) writes exactly the byte vector of _serialize(mode, config); _deserialize(mode, istream)
    reads the length word (slot 0), rewinds by exactly that word and reads `length` bytes, then forwards (mode, DT2, IT2) unchanged.
    Each condition is three-valued: a definite mismatch is a violation, an unrecognised shape is analysis-incomplete."""
    R = "E12.stream-frame"

    def settle(key, conds, f):
        bad = [t for c, t in conds if c is False]
        unk = [t for c, t in conds if c is None]
        if bad:
            ck.ob(R, key, False, "violated: " + "; ".join(bad), f.file, f.line)
        elif unk:
            ck.incomplete(R, "%s: not recognised: %s" % (key, "; ".join(unk)))
        else:
            ck.ob(R, key, True, "; ".join(t for c, t in conds), f.file, f.line)
    # writer
    calls = [c for c in ws_.calls(name="_serialize")]
    wr = [c for c in ws_.calls() if c.get("k") == "MCall" and c.get("n") == "write"]
    if len(calls) != 1 or len(wr) != 1 or len(wr[0].get("a", [])) != 2:
        ck.incomplete(R, "%s/ostream: expected one forwarding call to _serialize and one stream write" % inst)
    else:
        L = LayoutFn(ws_, "w")
        vec = None
        for d, v in L.decl.items():
            ini = strip_cast(v.get("init")) if v.get("init") is not None else None
            while ini is not None and ini.get("k") in ("Construct", "TempObj") and len(ini.get("a", [])) == 1:
                ini = strip_cast(ini["a"][0])
            if ini is calls[0]:
                vec = d
        a0, a1 = through_consts(ws_, wr[0]["a"][0]), through_consts(ws_, wr[0]["a"][1])

        def of_vec(x, nm):
            if vec is None or x is None or x.get("k") != "MCall" or x.get("n") not in ("data", "size"):
                return None
            return x.get("n") == nm and strip_cast(x["obj"]).get("d") == vec
        settle("%s/ostream" % inst, [
            (targs_of(calls[0].get("cfull", "")) == targs.strip("<>"), "forwards the type parameters %s" % targs),
            (L.canon(calls[0]["a"][0]) == "$p0" if strip_cast(calls[0]["a"][0]).get("k") == "Ref" else None, "forwards the FileMode tag"),
            (of_vec(a0, "data"), "writes data() of the serialised vector"),
            (of_vec(a1, "size"), "writes size() bytes of it"),
        ], ws_)
    # reader
    L = LayoutFn(rs_, "r")
    seqs = [n for n in rs_.nodes() if n.get("k") == "MCall" and n.get("n") in ("read", "seekg") and "istream" in (n.get("callee") or "")]
    fwd = [c for c in rs_.calls(name="_deserialize")]
    if [x["n"] for x in seqs] != ["read", "seekg", "read"] or len(fwd) != 1:
        ck.incomplete(R, "%s/istream: expected read / seekg / read and one forwarding call (found %s)" % (inst, [x["n"] for x in seqs]))
        return
    r1, sk, r2 = seqs
    t1 = strip_cast(r1["a"][0])
    lenvar = strip_cast(t1["e"]).get("d") if t1.get("k") == "Un" and t1.get("op") == "&" and strip_cast(t1["e"]).get("k") == "Ref" else None
    lent = rs_.type(L.decl[lenvar]["t"]) if lenvar in L.decl else None
    n1 = through_consts(rs_, r1["a"][1])
    skn = strip_cast(sk["a"][0])
    back = through_consts(rs_, skn["e"]) if skn.get("k") == "Un" and skn.get("op") == "-" else None
    tmp = strip_cast(r2["a"][0])
    tmpd = strip_cast(tmp["obj"]).get("d") if tmp.get("k") == "MCall" and tmp.get("n") == "data" else None
    tini = L.decl.get(tmpd, {}).get("init")
    tsz = strip_cast(tini["a"][0]) if tini is not None and tini.get("a") else None
    cnt2 = strip_cast(r2["a"][1])

    def same_var(x):
        if lenvar is None or x is None or x.get("k") != "Ref":
            return None
        return x.get("d") == lenvar
    settle("%s/istream" % inst, [
        ((n1.get("type") == lent) if (lenvar is not None and n1 is not None and n1.get("k") == "SizeOf") else None, "first read fills the length word with sizeof(its type)"),
        ((back.get("type") == lent) if (back is not None and back.get("k") == "SizeOf" and lent) else None, "seeks back by exactly the length word"),
        (same_var(cnt2), "second read takes `length` bytes"),
        (same_var(tsz), "temporary buffer has `length` bytes"),
        (targs_of(fwd[0].get("cfull", "")) == targs.strip("<>"), "forwards the type parameters %s" % targs),
        (L.canon(fwd[0]["a"][0]) == "$p0" if strip_cast(fwd[0]["a"][0]).get("k") == "Ref" else None, "forwards the FileMode tag"),
        ((strip_cast(fwd[0]["a"][1]).get("d") == tmpd) if (tmpd is not None and strip_cast(fwd[0]["a"][1]).get("k") == "Ref") else None, "forwards the buffer that was read"),
    ], rs_)


# -------------------------------------------------------------------------------------------------
# clause 2: file-mode vocabularies of write_out / read_from, (tag, DT, IT) of the binary modes
# -------------------------------------------------------------------------------------------------

def short_cls(c):
    return (c or "").replace("FEAT::LAFEM::", "").replace("FEAT::Control::", "")


def switch_groups(sw):
    """-> [(set of case labels (enum qn) | {'default'}, [statements])] of a switch on an enum"""
    groups = []
    cur_labels, cur_stmts = set(), []

    def flush():
        nonlocal cur_labels, cur_stmts
        if cur_labels:
            groups.append((cur_labels, cur_stmts))
        cur_labels, cur_stmts = set(), []

    def feed(n):
        nonlocal cur_labels, cur_stmts
        k = n.get("k")
        if k in ("Case", "Default"):
            if cur_stmts:
                # fall-through from a non-empty group: keep it attached (not used by FEAT's IO switches)
                flush()
            lab = "default"
            if k == "Case":
                v = strip_cast(n.get("v"))
                lab = v.get("qn") or render(v)
            cur_labels.add(lab)
            sub = n.get("s")
            for x in (sub if isinstance(sub, list) else [sub]):
                if x is not None:
                    feed(x)
            return
        if k == "Break":
            flush()
            return
        if k == "Block" and not cur_stmts and any(x.get("k") in ("Case", "Default") for x in n.get("s", [])):
            for x in n["s"]:
                feed(x)
            return
        cur_stmts.append(n)
        # a block that ends in break closes the group
        if k == "Block" and n.get("s") and n["s"][-1].get("k") == "Break":
            flush()
    for x in stmts_of(sw.get("body")):
        feed(x)
    flush()
    return groups


def mode_switch(fn):
    """the switch over the FileMode parameter of a read_from/write_out stream overload"""
    for n in walk(fn.body):
        if n.get("k") == "Switch":
            c = strip_cast(n.get("c"))
            if c.get("k") == "Ref" and c.get("dk") == "param" and "FileMode" in fn.type(c.get("t")):
                return n
    return None


def _self_forward(fn, stmts):
    """the statements of one dispatch group are `this->f(FileMode::X, <own parameters>)` (f = the function itself), optionally followed by
    break / return -> qualified name of X, else None"""
    body = [x for x in flat_statements(stmts) if x.get("k") not in ("Break",)]
    if len(body) == 1 and body[0].get("k") == "Return" and body[0].get("e") is not None:
        body = [strip_cast(body[0]["e"])]
    elif len(body) == 2 and body[1].get("k") == "Return" and body[1].get("e") is None:
        body = body[:1]
    if len(body) != 1 or body[0].get("k") != "MCall":
        return None
    c = body[0]
    o = strip_cast(c.get("obj")) if c.get("obj") is not None else None
    if (o is not None and o.get("k") != "This") or (c.get("n") or "") != fn.name or len(c.get("a", [])) != len(fn.params):
        return None
    tag = strip_cast(c["a"][0])
    if tag.get("k") != "Ref" or tag.get("dk") != "enum" or not tag.get("qn"):
        return None
    for a_, p_ in zip(c["a"][1:], fn.params[1:]):
        a0 = strip_cast(a_)
        if not (a0.get("k") == "Ref" and a0.get("dk") == "param" and a0.get("d") == p_["d"]):
            return None
    return tag["qn"]


_MODE_GROUPS = {}


def mode_groups(fn):
    """the dispatch of a read_from / write_out overload over its FileMode parameter as [(set of enumerators | {'default'}, [statements])]:
    a switch, an if / else-if chain, or a sequence of terminating ifs; a case that only forwards to the function itself with another
    constant mode is merged into that mode's group.  None if no such dispatch is recognised."""
    if id(fn) in _MODE_GROUPS:
        return _MODE_GROUPS[id(fn)]
    sw = mode_switch(fn)
    groups = None

    def is_mode(x):
        return x is not None and x.get("k") == "Ref" and x.get("dk") == "param" and "FileMode" in fn.type(x.get("t"))
    # the mode parameter is re-assigned (`if(mode == fm_binary) mode = fm_dv;`): which cases a label reaches is not modelled
    remapped = any((n.get("k") == "Assign" and is_mode(strip_cast(n["lhs"]))) or
                   (n.get("k") == "Var" and "FileMode" in fn.type(n.get("t")) and n.get("init") is not None and not is_mode(strip_cast(n["init"]))
                    and strip_cast(n["init"]).get("dk") != "enum") for n in fn.nodes())
    if remapped:
        _MODE_GROUPS[id(fn)] = None
        return None
    if sw is not None:
        groups = switch_groups(sw)
        # modes handled by terminating ifs in front of the switch belong to the dispatch as well
        top = flat_statements(stmts_of(fn.body))
        if any(x is sw for x in top):
            pre = top[:[i_ for i_, x in enumerate(top) if x is sw][0]]
            extra = []
            for x in pre:
                if x.get("k") == "If" and any(is_mode(y) for y in walk(x.get("c"))):
                    labs = norm_c05.enum_tests(x.get("c"), is_mode)
                    if labs is None or x.get("else") is not None or not norm_c05._terminates(stmts_of(x.get("then"))):
                        groups = None
                        break
                    extra.append((set(q for q, _ in labs), stmts_of(x.get("then"))))
            if groups is not None:
                groups = extra + groups
        elif any(x.get("k") == "If" and any(is_mode(y) for y in walk(x.get("c"))) for x in walk(fn.body)):
            groups = None
    else:
        r = norm_c05.if_chain_groups(flat_statements(stmts_of(fn.body)), is_mode)
        if r is not None:
            groups = r[0]
    if groups is not None:
        merged = [(set(ls), list(st)) for ls, st in groups]
        for _ in range(4):
            changed = False
            for gi, (ls, st) in enumerate(merged):
                tgt = _self_forward(fn, st) if "default" not in ls else None
                if tgt is None or tgt in ls:
                    continue
                for gj, (ls2, st2) in enumerate(merged):
                    if gj != gi and tgt in ls2:
                        merged[gj] = (ls2 | ls, st2)
                        del merged[gi]
                        changed = True
                        break
                if changed:
                    break
            if not changed:
                break
        groups = merged
    _MODE_GROUPS[id(fn)] = groups
    return groups


def value_groups(fn, is_scrutinee):
    """dispatch of fn over one value (a parameter, sizeof(T)): the single switch on it, or an if chain / sequence of terminating ifs comparing
    it with constants -> ([(labels, statements)], label -> integer value) or None"""
    sws = [n for n in walk(fn.body) if n.get("k") == "Switch" and is_scrutinee(strip_cast(n.get("c")))]
    if len(sws) == 1:
        vals = {}
        for n in walk(sws[0]):
            if n.get("k") == "Case":
                v = strip_cast(n.get("v"))
                if v is not None and v.get("v") is not None:
                    try:
                        vals[v.get("qn") or render(v)] = int(v["v"])
                    except (TypeError, ValueError):
                        pass
        return switch_groups(sws[0]), vals
    if sws:
        return None
    r = norm_c05.if_chain_groups(flat_statements(stmts_of(fn.body)), is_scrutinee)
    if r is None:
        return None
    vals = {}
    for q, v in r[1].items():
        try:
            vals[q] = int(v)
        except (TypeError, ValueError):
            pass
    return r[0], vals


def serial_calls(stmts, name):
    out = []
    for s in stmts:
        for c in walk(s):
            if c.get("k") == "MCall" and (c.get("callee") or "").endswith("::" + name):
                tag = strip_cast(c["a"][0]) if c.get("a") else None
                out.append({"tag": (tag.get("qn") or render(tag)) if tag is not None else None, "targs": targs_of(c.get("cfull", "")), "line": c.get("l"),
                            "tag_is_param": tag is not None and tag.get("dk") == "param"})
    return out


# modes that are deliberately written but not read by the same class, with the repository's own statement of that
EXPORT_ONLY = {
    ("SparseMatrixBCSR", "fm_mtx"): "read_from carries '\\todo read_from_mtx' with the case commented out; the pod-perspective MatrixMarket export is read by SparseMatrixCSR",
}


def stream_overloads(facts, name, stream):
    out = {}
    for f in facts.functions:
        if f.tk == "pattern" or f.name != name or len(f.params) < 2:
            continue
        if "FileMode" not in f.type(f.params[0]["t"]) or stream not in f.type(f.params[1]["t"]):
            continue
        out.setdefault(f.cls, f)
    return out


def check_vocabulary(ck, facts):
    wr = stream_overloads(facts, "write_out", "ostream")
    rd = stream_overloads(facts, "read_from", "istream")
    for cls in sorted(set(wr) | set(rd)):
        sc = short_cls(cls)
        base = strip_targs(sc)
        fw, fr = wr.get(cls), rd.get(cls)
        if fw is None or fr is None:
            ck.incomplete("E12.mode-sets", "%s: %s(FileMode, stream) is instantiated by the driver but %s(FileMode, stream) is not" % (
                sc, "write_out" if fw else "read_from", "read_from" if fw else "write_out"))
            continue
        gw, gr = mode_groups(fw), mode_groups(fr)
        if gw is None or gr is None:
            ck.incomplete("E12.mode-sets", "%s: no dispatch (switch / if chain) over the FileMode parameter recognised in %s" % (sc, "write_out" if gw is None else "read_from"))
            continue
        mw = {l: i for i, (ls, _) in enumerate(gw) for l in ls if l != "default"}
        mr = {l: i for i, (ls, _) in enumerate(gr) for l in ls if l != "default"}
        for m in sorted(set(mw) | set(mr)):
            ms = m.rsplit("::", 1)[-1]
            key = "%s/%s" % (sc, ms)
            if m in mw and m in mr:
                ck.ob("E12.mode-sets", key, True, "handled by write_out and read_from", fw.file, fw.line)
            elif (base, ms) in EXPORT_ONLY and m in mw:
                ck.ob("E12.mode-sets", key, True, "export-only mode: " + EXPORT_ONLY[(base, ms)], fw.file, fw.line, trivial=True)
            else:
                f = fw if m in mw else fr
                ck.ob("E12.mode-sets", key, False, "FileMode::%s is handled by %s but falls into the 'not supported' default of %s" % (
                    ms, "write_out" if m in mw else "read_from", "read_from" if m in mw else "write_out"), f.file, f.line)
        # default branches must refuse
        for nm, groups, f in (("write_out", gw, fw), ("read_from", gr, fr)):
            dg = [st for ls, st in groups if "default" in ls and len(ls) == 1]
            ok = bool(dg) and any(c.get("noreturn") or c.get("k") == "Throw" for s in dg[0] for c in walk(s) if is_call(c) or c.get("k") == "Throw")
            if ok:
                ck.ob("E12.mode-sets", "%s/%s/default-refuses" % (sc, nm), True, "default branch aborts", f.file, f.line, trivial=True)
            else:
                ck.incomplete("E12.mode-sets", "%s::%s: refusal of unsupported modes not recognised (no aborting default branch)" % (sc, nm))
        # binary groups: same labels, same (tag, DT, IT)
        for ls, st in gw:
            sc_w = serial_calls(st, "_serialize")
            if not sc_w:
                continue
            labs = sorted(l.rsplit("::", 1)[-1] for l in ls)
            key = "%s/%s" % (sc, "+".join(labs))
            match = [(ls2, st2) for ls2, st2 in gr if ls2 & ls]
            sc_r = [c for ls2, st2 in match for c in serial_calls(st2, "_deserialize")]
            if len(sc_w) != 1 or len(sc_r) > 1:
                ck.incomplete("E12.mode-tags", "%s: write_out calls _serialize %d times, the corresponding read_from cases call _deserialize %d times" % (key, len(sc_w), len(sc_r)))
                continue
            if not sc_r:
                if match:
                    ck.incomplete("E12.mode-tags", "%s: the read_from cases do not call _deserialize directly (helper?)" % key)
                continue      # a mode read_from does not handle at all is reported by E12.mode-sets
            a, b = sc_w[0], sc_r[0]
            same_labels = all(ls2 == ls for ls2, _ in match)
            ok = a["tag"] == b["tag"] and a["targs"] == b["targs"] and same_labels
            ck.ob("E12.mode-tags", key, ok, "write_out: _serialize<%s>(%s)  read_from: _deserialize<%s>(%s)%s" % (
                a["targs"], a["tag"], b["targs"], b["tag"], "" if same_labels else " (case labels of the two groups differ)"), fr.file, b["line"],
                sample={"writer": [a["tag"], a["targs"]], "reader": [b["tag"], b["targs"]]})
    # public serialize<>/deserialize<> pairs
    ser, des = {}, {}
    for f in facts.functions:
        if f.tk == "pattern":
            continue
        if f.name == "serialize":
            ser[(f.cls, targs_of(f.full))] = f
        elif f.name == "deserialize":
            des[(f.cls, targs_of(f.full))] = f
    for (cls, ta) in sorted(set(ser) | set(des)):
        sc = short_cls(cls)
        key = "%s/serialize<%s>" % (sc, ta)
        fs_, fd = ser.get((cls, ta)), des.get((cls, ta))
        if fs_ is None or fd is None:
            continue
        a = serial_calls([fs_.body], "_serialize")
        b = serial_calls([fd.body], "_deserialize")
        if len(a) != 1 or len(b) != 1:
            ck.incomplete("E12.mode-tags", "%s: serialize/deserialize do not forward to exactly one _serialize/_deserialize" % sc)
            continue
        ok = a[0]["tag"] == b[0]["tag"] and a[0]["targs"] == ta and b[0]["targs"] == ta
        # the tag is also the one the file modes use
        fw = wr.get(cls)
        tags_w = set()
        if fw is not None:
            tags_w = set(c["tag"] for c in serial_calls([fw.body], "_serialize"))
        ok2 = not tags_w or tags_w == {a[0]["tag"]}
        ck.ob("E12.mode-tags", key, ok and ok2, "serialize: _serialize<%s>(%s)  deserialize: _deserialize<%s>(%s)%s" % (
            a[0]["targs"], a[0]["tag"], b[0]["targs"], b[0]["tag"], "" if ok2 else "; write_out uses tag %s" % sorted(tags_w)), fd.file, b[0]["line"])


# -------------------------------------------------------------------------------------------------
# clause 2b: magic numbers / header words of the meta vectors, header lines of text formats
# -------------------------------------------------------------------------------------------------

def words_written(fn):
    """header words stored into a small byte vector that is then written to the stream:
    -> (dict slot -> canonical value, bytes written (sympy), line) or None"""
    L = LayoutFn(fn, "w")
    hdr = {}
    for n in fn.nodes():
        if n.get("k") == "Assign":
            a = L.access(n["lhs"], resolve=False)
            if a is not None and strip_cast(a["idx"]).get("k") == "Int":
                v = strip_cast(n["rhs"])
                val = str(int(v["v"])) if v.get("v") is not None and v.get("k") in ("Int", "Ref") else L.canon(v)
                hdr[int(strip_cast(a["idx"])["v"])] = (val, a["unit"], n.get("l"))
    nbytes = None
    for n in fn.nodes():
        if n.get("k") == "MCall" and n.get("n") == "write" and len(n.get("a", [])) == 2:
            a0, a1 = strip_cast(n["a"][0]), strip_cast(n["a"][1])
            if a0.get("k") == "MCall" and a0.get("n") == "data" and L.is_root(a0.get("obj")) and a1.get("k") == "MCall" and a1.get("n") == "size" and L.is_root(a1.get("obj")):
                d = strip_cast(a1["obj"])["d"]
                ini = L.decl.get(d, {}).get("init")
                if ini is not None and ini.get("a"):
                    nbytes = (L.sym(ini["a"][0], State()), n.get("l"))
    if not hdr or nbytes is None:
        # word by word: stream.write((const char*)&word, sizeof(T)) with `word` a local holding a constant / a count
        hdr, tot, line = {}, sp.Integer(0), None
        for n in fn.nodes():
            if n.get("k") == "MCall" and n.get("n") == "write" and len(n.get("a", [])) == 2 and "ostream" in (n.get("callee") or ""):
                t = strip_cast(n["a"][0])
                if t.get("k") == "Un" and t.get("op") == "&" and strip_cast(t["e"]).get("k") == "Ref" and strip_cast(t["e"]).get("dk") == "local":
                    d = strip_cast(t["e"])["d"]
                    v = through_consts(fn, strip_cast(t["e"]))
                    val = str(int(v["v"])) if v is not None and v.get("v") is not None and v.get("k") in ("Int", "Ref") else L.canon(strip_cast(t["e"]))
                    unit = re.sub(r"^const\s+", "", fn.type(L.decl[d]["t"]) or "") if d in L.decl else "?"
                    so = [x for x in walk(n["a"][1]) if x.get("k") == "SizeOf" and x.get("type")]
                    if len(so) == 1:
                        unit = so[0]["type"]
                    hdr[len(hdr)] = (val, unit, n.get("l"))
                    tot = tot + L.sym(n["a"][1], State())
                    line = line or n.get("l")
        if not hdr:
            return None
        return hdr, tot, line
    return hdr, nbytes[0], nbytes[1]


def words_read(fn):
    """sequence of `stream.read((char*)&var, sizeof(T))` and the constants the variables are compared with
    in aborting conditions: -> [(var name id, sympy bytes, expected constant or None, line)]"""
    L = LayoutFn(fn, "r")
    reads = []
    for n in fn.nodes():
        if n.get("k") == "MCall" and n.get("n") == "read" and len(n.get("a", [])) == 2 and "istream" in (n.get("callee") or ""):
            t = strip_cast(n["a"][0])
            if t.get("k") == "Un" and t.get("op") == "&" and strip_cast(t["e"]).get("k") == "Ref":
                reads.append([strip_cast(t["e"])["d"], L.sym(n["a"][1], State()), None, n.get("l"), strip_cast(t["e"]).get("n")])
    def require(c, pol):
        """the routine only continues when (c == pol): record `var == constant` requirements"""
        c = through_consts(fn, c)
        if c is None:
            return
        if c.get("k") == "Un" and c.get("op") == "!":
            return require(c["e"], not pol)
        if c.get("k") == "Bin" and c.get("op") in ("==", "!=") and (c["op"] == "==") == pol:
            l, r = strip_cast(c["lhs"]), strip_cast(c["rhs"])
            for a, b in ((l, r), (r, l)):
                if a.get("k") == "Ref" and b.get("v") is not None and b.get("k") in ("Int", "Ref"):
                    for rd in reads:
                        if rd[0] == a.get("d"):
                            rd[2] = str(int(b["v"]))
        if c.get("k") == "Bin" and ((c.get("op") == "&&" and pol) or (c.get("op") == "||" and not pol)):
            require(c["lhs"], pol)
            require(c["rhs"], pol)

    def aborts(br):
        return br is not None and any(x.get("noreturn") or x.get("k") == "Throw" for x in walk(br) if is_call(x) or x.get("k") == "Throw")
    for n in fn.nodes():
        if n.get("k") == "If":
            if aborts(n.get("then")) and not aborts(n.get("else")):
                require(n["c"], False)
            elif aborts(n.get("else")) and not aborts(n.get("then")):
                require(n["c"], True)
        elif n.get("k") == "Call" and strip_targs(n.get("callee", "") or "") == "FEAT::assertion" and n.get("a"):
            require(n["a"][0], True)
    return reads


def check_meta_vector_magic(ck, facts):
    """PowerVector / TupleVector: [magic][block count] header words in front of the sub-vector dumps"""
    classes = {}
    for f in facts.functions:
        if f.tk == "pattern" or not re.match(r"^FEAT::LAFEM::(Power|Tuple)Vector<", f.cls):
            continue
        classes.setdefault(f.cls, {}).setdefault(f.name, []).append(f)
    for cls in sorted(classes):
        sc = short_cls(cls)
        fns = classes[cls]
        wcand = [f for nm in ("write_out", "write_out_binary") for f in fns.get(nm, []) if "ostream" in " ".join(f.type(p["t"]) for p in f.params)]
        rcand = [f for nm in ("read_from", "read_from_binary") for f in fns.get(nm, []) if "istream" in " ".join(f.type(p["t"]) for p in f.params)]
        W = R = None
        for f in wcand:
            try:
                w_ = words_written(f)
            except Unknown:
                w_ = None
            if w_:
                W = (f, w_)
        for f in rcand:
            r_ = words_read(f)
            if r_:
                R = (f, r_)
        if W is None and R is None:
            continue
        if W is None or R is None:
            ck.incomplete("E12.magic", "%s: header words found only on the %s side" % (sc, "reader" if W is None else "writer"))
            continue
        fw, (hdr, nbytes, wl) = W
        fr, reads = R
        tot = sum((r[1] for r in reads), sp.Integer(0))
        # widths are compared as numbers: sizeof(unsigned long) and sizeof(std::uint64_t) are the same 8 bytes
        szval = {}
        for f_ in (fw, fr):
            for x in f_.nodes():
                if x.get("k") == "SizeOf" and x.get("type") and x.get("v"):
                    szval[symbol("sz[%s]" % x["type"])] = int(x["v"])
        for t_, w_ in INT_WIDTH.items():
            szval.setdefault(symbol("sz[%s]" % t_), w_)
        num = lambda e_: sp.sympify(e_).subs(szval)
        ck.ob("E12.magic", "%s/header-bytes" % sc, seq(num(tot) - num(nbytes)), "writer emits %s header bytes, reader consumes %s before the first sub-vector" % (sp.sstr(nbytes), sp.sstr(tot)), fr.file, reads[0][3])
        for k, rd in enumerate(reads):
            if rd[2] is None:
                continue
            wv = hdr.get(k)
            ok = wv is not None and wv[0] == rd[2] and seq(num(rd[1]) - num(symbol("sz[%s]" % wv[1])))
            ck.ob("E12.magic", "%s/word%d" % (sc, k), ok, "reader requires word %d == %s, writer stores %s" % (k, rd[2], wv[0] if wv else "nothing"), fr.file, rd[3],
                  sample={"word": k, "reader": rd[2], "writer": wv[0] if wv else None})


def header_literals(stmts, fn=None):
    """'%%MatrixMarket ...' banners in the statements: -> [(text, line, complete?)].  A banner streamed in pieces
    (`file << "%%MatrixMarket matrix coordinate real " << (symmetric ? "symmetric" : "general") << "\n"`) is assembled from the pieces of
    the << chain (string literals, constant string locals, conditional expressions over literals -> one banner per alternative); a piece
    that is none of these makes the banner incomplete (its text is only a prefix)."""
    out = []
    in_chain = set()

    def alts(x):
        x = through_consts(fn, x) if fn is not None else strip_cast(x)
        while x is not None and x.get("k") in ("Construct", "TempObj") and len(x.get("a", [])) == 1:
            x = strip_cast(x["a"][0])
        if x is None:
            return None
        if x.get("k") == "Str":
            return [str(x["v"])]
        if x.get("k") == "Cond":
            a, b = alts(x["then"]), alts(x["else"])
            if a is not None and b is not None:
                return a + b
        return None
    for s in stmts:
        for n in walk(s):
            if n.get("k") == "OpCall" and n.get("op") == "<<" and id(n) not in in_chain:
                items = flatten_chain(n)
                for y in walk(n):
                    if y.get("k") == "OpCall" and y.get("op") == "<<":
                        in_chain.add(id(y))
                start = [i for i, it in enumerate(items) if strip_cast(it).get("k") == "Str" and str(strip_cast(it).get("v", "")).startswith("%%MatrixMarket")]
                if not start:
                    continue
                texts, complete = [""], True
                for it in items[start[0]:]:
                    a = alts(it)
                    if a is None:
                        complete = False
                        break
                    texts = [t + x for t in texts for x in a]
                    if all("\n" in t for t in texts):
                        break
                for t in texts:
                    for y in walk(items[start[0]]):
                        in_chain.add(id(y))
                    out.append((t.split("\n")[0].strip(), n.get("l"), complete))
                for it in items[start[0]:]:
                    for y in walk(it):
                        in_chain.add(id(y))
    for s in stmts:
        for n in walk(s):
            if n.get("k") == "Str" and id(n) not in in_chain and str(n.get("v", "")).startswith("%%MatrixMarket"):
                out.append((str(n["v"]).split("\n")[0].strip(), n.get("l"), True))
    return out


def check_text_headers(ck, facts):
    """the '%%MatrixMarket ...' banner a writer emits is one the reader of the same class/mode accepts"""
    # containers: per fm_mtx case group
    wr = stream_overloads(facts, "write_out", "ostream")
    rd = stream_overloads(facts, "read_from", "istream")
    pairs = []
    for cls in sorted(set(wr) & set(rd)):
        gw, gr = mode_groups(wr[cls]), mode_groups(rd[cls])
        if gw is None or gr is None:
            continue
        for ls, st in gw:
            for ls2, st2 in gr:
                if ls & ls2 and "default" not in ls:
                    pairs.append((short_cls(cls) + "/" + "+".join(sorted(l.rsplit("::", 1)[-1] for l in ls)), wr[cls], st, rd[cls], st2))
    # meta matrices: whole functions (file-name overloads)
    wf, rf = {}, {}
    for f in facts.functions:
        if f.tk == "pattern" or len(f.params) < 2 or "FileMode" not in f.type(f.params[0]["t"]) or "String" not in f.type(f.params[1]["t"]):
            continue
        if f.name == "write_out":
            wf.setdefault(f.cls, f)
        elif f.name == "read_from":
            rf.setdefault(f.cls, f)
    for cls in sorted(set(wf) & set(rf)):
        if cls in wr:
            continue
        pairs.append((short_cls(cls), wf[cls], [wf[cls].body], rf[cls], [rf[cls].body]))
    for key, fw, stw, fr, str_ in pairs:
        lw, lr = header_literals(stw, fw), header_literals(str_, fr)
        if not lw or not lr:
            continue
        for lit, line, complete in lw:
            ok = any(r in lit for r, _, _ in lr)
            bkey = "%s/%s" % (key, lit.split()[-1] if lit.split() else lit)
            if not ok and (not complete or not all(c_ for _, _, c_ in lr)):
                ck.incomplete("E12.text-banner", "%s: the banner is assembled from pieces the analysis cannot evaluate (writer '%s...', reader %s)" % (bkey, lit, [r for r, _, _ in lr]))
                continue
            ck.ob("E12.text-banner", bkey, ok, "writer emits '%s'; reader accepts %s" % (lit, [r for r, _, _ in lr]), fw.file, line)


# -------------------------------------------------------------------------------------------------
# clause 3: text readers — row_ptr built completely with row-kind subscripts; size line order
# -------------------------------------------------------------------------------------------------

# accessor contract (DESIGN A.2): pointer returned by the accessor -> (extent kind, value kind)
ACCESSOR_KIND = {"row_ptr": ("Row+1", "NZ"), "col_ind": ("NZ", "Col"), "val": ("NZ", "scalar")}


_CONST_INIT = {}


def const_inits(fn):
    """decl id -> initialiser of locals that are never assigned after their declaration"""
    key = id(fn)
    if key not in _CONST_INIT:
        decl, assigned = {}, set()
        for n in fn.nodes():
            k = n.get("k")
            if k == "Decl":
                for v in n["vars"]:
                    if v.get("init") is not None:
                        decl[v["d"]] = v["init"]
            elif k == "Assign":
                l = strip_cast(n["lhs"])
                if l.get("k") == "Ref":
                    assigned.add(l.get("d"))
            elif k == "Un" and n.get("op") in ("++", "--"):
                l = strip_cast(n["e"])
                if l.get("k") == "Ref":
                    assigned.add(l.get("d"))
        _CONST_INIT[key] = {d: i for d, i in decl.items() if d not in assigned}
    return _CONST_INIT[key]


def through_consts(fn, n):
    n = strip_cast(n)
    seen = 0
    while n is not None and n.get("k") == "Ref" and n.get("dk") == "local" and fn is not None and n.get("d") in const_inits(fn) and seen < 8:
        n = strip_cast(const_inits(fn)[n["d"]])
        while n is not None and n.get("k") in ("Construct", "TempObj") and len(n.get("a", [])) == 1:
            n = strip_cast(n["a"][0])
        seen += 1
    return n


def is_this_call(n, names, fn=None):
    n = through_consts(fn, n) if fn is not None else strip_cast(n)
    if n is None or n.get("k") != "MCall" or n.get("n") not in names:
        return False
    o = strip_cast(n.get("obj")) if n.get("obj") is not None else None
    return o is None or o.get("k") == "This"


def rows_loop(st, fn=None):
    """`for(i = 0; i < rows(); ++i)` (the bound possibly hoisted into a constant local) -> decl id of i, else None"""
    if st.get("k") == "While" and fn is not None:
        cond = strip_cast(st.get("c"))
        if not (cond is not None and cond.get("k") == "Bin" and cond.get("op") == "<" and strip_cast(cond["lhs"]).get("k") == "Ref"
                and is_this_call(cond["rhs"], ("rows", "_rows"), fn)):
            return None
        d = strip_cast(cond["lhs"])["d"]
        ini = None
        nassign = 0
        for n in fn.nodes():
            if n.get("k") == "Decl":
                for v in n["vars"]:
                    if v["d"] == d:
                        ini = v.get("init")
            if n.get("k") == "Assign" and strip_cast(n["lhs"]).get("d") == d:
                nassign += 1
        if ini is None or not is_zero(ini) or nassign:
            return None
        incs = [x for x in walk(st.get("body")) if x.get("k") == "Un" and x.get("op") == "++" and strip_cast(x["e"]).get("d") == d]
        top = [x for x in stmts_of(st.get("body")) if x.get("k") == "Un" and x.get("op") == "++" and strip_cast(x["e"]).get("d") == d]
        outside = [x for x in fn.nodes() if x.get("k") == "Un" and x.get("op") in ("++", "--") and strip_cast(x["e"]).get("d") == d]
        if len(incs) == 1 and len(top) == 1 and len(outside) == 1 and not any(x.get("k") == "Continue" for x in walk(st.get("body"))):
            return d
        return None
    if st.get("k") != "For":
        return None
    ini, cond, inc = st.get("init"), strip_cast(st.get("c")), strip_cast(st.get("inc"))
    if ini is None or ini.get("k") != "Decl" or len(ini["vars"]) != 1:
        return None
    v = ini["vars"][0]
    i0 = strip_cast(v.get("init"))
    while i0 is not None and i0.get("k") in ("Construct", "TempObj") and len(i0.get("a", [])) == 1:
        i0 = strip_cast(i0["a"][0])
    if i0 is None or i0.get("k") != "Int" or int(i0["v"]) != 0:
        return None
    if cond is None or cond.get("k") != "Bin" or cond.get("op") not in ("<", "!=", ">"):
        return None
    cl, cr = (cond["lhs"], cond["rhs"]) if cond["op"] != ">" else (cond["rhs"], cond["lhs"])
    if cond["op"] == "!=" and strip_cast(cr).get("k") == "Ref" and strip_cast(cr).get("d") == v["d"]:
        cl, cr = cr, cl
    if not (strip_cast(cl).get("k") == "Ref" and strip_cast(cl).get("d") == v["d"] and is_this_call(cr, ("rows", "_rows"), fn)):
        return None
    if norm_c05._advance_of(inc) != v["d"]:
        return None
    if any(norm_c05._advance_of(x) == v["d"] or (x.get("k") == "Assign" and strip_cast(x["lhs"]).get("k") == "Ref" and strip_cast(x["lhs"]).get("d") == v["d"]) for x in walk(st.get("body"))):
        return None
    return v["d"]


def own_induction(st):
    """decl id of the variable a for loop declares in its init and advances in its increment (whatever the bound is), else None"""
    if st.get("k") != "For":
        return None
    ini = st.get("init")
    if ini is None or ini.get("k") != "Decl":
        return None
    ds = [v["d"] for v in ini["vars"]]
    for x in norm_c05._comma_list(st.get("inc")):
        d = norm_c05._advance_of(x)
        if d in ds:
            return d
    return None


def check_rowptr_builders(ck, facts):
    """E2 on every text reader that builds a CSR-style layout through the raw row_ptr()/col_ind()/val() pointers"""
    for f in sorted(facts.functions, key=lambda f: f.full):
        if f.tk == "pattern" or f.name != "read_from" or len(f.params) != 2 or "istream" not in f.type(f.params[1]["t"]):
            continue
        ptr = {}
        for n in f.nodes():
            if n.get("k") == "Decl":
                for v in n["vars"]:
                    ini = strip_cast(v.get("init")) if v.get("init") is not None else None
                    if ini is not None and is_this_call(ini, tuple(ACCESSOR_KIND)):
                        ptr[v["d"]] = ini["n"]
        if "row_ptr" not in ptr.values():
            continue
        sc = short_cls(f.cls)
        par = parent_map(f)
        stores = {}
        for n in f.nodes():
            if n.get("k") == "Assign" and n.get("op") == "=":
                l = strip_cast(n["lhs"])
                if l.get("k") == "Index" and strip_cast(l["b"]).get("d") in ptr:
                    stores.setdefault(ptr[strip_cast(l["b"])["d"]], []).append(n)

        def enclosing(n, kinds):
            out = []
            x = n
            while id(x) in par:
                x = par[id(x)]
                if x.get("k") in kinds:
                    out.append(x)
            return out

        # locals incremented inside loops that do not range over the rows: ordinals of that iteration
        ordinals = {}
        unknown_index = {}
        for n in f.nodes():
            if n.get("k") == "Un" and n.get("op") == "++":
                e = strip_cast(n["e"])
                if e.get("k") == "Ref" and e.get("dk") == "local":
                    loops = enclosing(n, ("For", "ForRange", "While", "Do"))
                    if loops:
                        inner = loops[0]
                        if rows_loop(inner, f) == e["d"]:
                            continue
                        if own_induction(inner) == e["d"]:
                            # the induction variable of an index loop whose bound is not recognised as rows(): what it ranges over is unknown
                            # (it may well be the rows, through an alias of the extent) - no verdict from it
                            unknown_index[e["d"]] = inner
                            continue
                        ordinals[e["d"]] = inner
        nz_cursor = set()
        for a in ("col_ind", "val"):
            for s in stores.get(a, []):
                i = strip_cast(strip_cast(s["lhs"])["idx"])
                if i.get("k") == "Ref":
                    nz_cursor.add(i["d"])
        # --- kind of every row_ptr subscript
        loop_store, end_store, zero_store = None, None, None
        for s in stores.get("row_ptr", []):
            idx = strip_cast(strip_cast(s["lhs"])["idx"])
            loops = enclosing(s, ("For", "ForRange", "While", "Do"))
            rl = [l for l in loops if rows_loop(l, f) is not None]
            kind, why = None, ""
            if idx.get("k") == "Ref" and rl and rows_loop(rl[0], f) == idx.get("d"):
                kind = "Row"
                loop_store = (s, rl[0], 0)
            elif idx.get("k") == "Bin" and idx.get("op") == "+" and rl and strip_cast(idx["lhs"]).get("d") == rows_loop(rl[0], f) and render(strip_cast(idx["rhs"])) == "1":
                kind = "Row+1"
                loop_store = (s, rl[0], 1)
            elif is_this_call(idx, ("rows", "_rows"), f):
                kind = "Row+1"
                end_store = s
            elif idx.get("k") == "Int" and int(idx["v"]) == 0:
                kind = "Row"
                zero_store = s
            elif idx.get("k") == "Ref" and idx.get("d") in ordinals:
                lp = ordinals[idx["d"]]
                kind = "Ord"
                why = "'%s' counts the iterations of the %s at line %s (%s), which does not range over the rows" % (
                    idx["n"], lp["k"], lp.get("l"), render(lp.get("range") if lp["k"] == "ForRange" else lp.get("c"))[:60])
            if kind is None:
                ck.incomplete("E2.rowptr-kind", "%s::read_from: subscript '%s' of the row_ptr array not classified" % (sc, render(idx)))
                continue
            ck.ob("E2.rowptr-kind", "%s/read_from/row_ptr[%s]" % (sc, kind if kind != "Ord" else "ordinal"), kind in ("Row", "Row+1"),
                  "row_ptr[%s] has index kind %s%s" % (render(idx), kind, "; " + why if why else " (row_ptr: Row+1 -> NZ)"), f.file, s.get("l"),
                  sample={"subscript": render(idx), "kind": kind})
        # --- coverage of [0, rows]
        key = "%s/read_from/row_ptr" % sc
        ord_store = any(strip_cast(strip_cast(s_["lhs"])["idx"]).get("d") in ordinals for s_ in stores.get("row_ptr", []) if strip_cast(strip_cast(s_["lhs"])["idx"]).get("k") == "Ref")
        if loop_store is None:
            if ord_store:
                ck.ob("E2.rowptr-coverage", key, False, "row_ptr is only stored at the ordinals of an iteration over the rows that have entries; no loop over [0, rows()) defines it: "
                      "rows without entries keep an undefined offset", f.file, f.line)
            else:
                ck.incomplete("E2.rowptr-coverage", "%s: no loop over [0, rows()) storing row_ptr[row] recognised (filled by an unmodelled construct?)" % key)
        else:
            s, lp, off = loop_store
            body = flat_statements(stmts_of(lp["body"]))
            uncond, skipped = False, False
            for b in body:
                if b is s:
                    uncond = True
                    break
                if any(x.get("k") in ("Continue", "Break", "Return") for x in walk(b)) or any(x is s for x in walk(b)):
                    skipped = any(x.get("k") in ("Continue", "Break", "Return") for x in walk(b)) and not any(x is s for x in walk(b))
                    break
            other = end_store if off == 0 else zero_store
            if not uncond and not skipped:
                ck.incomplete("E2.rowptr-coverage", "%s: the store row_ptr[i] is nested in another statement of the row loop; whether it runs on every iteration is not established" % key)
            elif uncond and other is None:
                ck.incomplete("E2.rowptr-coverage", "%s: the store of the %s slot of row_ptr was not recognised" % (key, "end" if off == 0 else "first"))
            else:
                ck.ob("E2.rowptr-coverage", key, uncond, ("row_ptr[%s] is stored on every iteration of the loop over [0, rows()) and row_ptr[%s] after it" % ("i" if off == 0 else "i+1", "rows()" if off == 0 else "0")) if uncond else
                      "the store row_ptr[i] is skipped on some iterations (continue/break before it): those rows keep an undefined offset", f.file, s.get("l"))
            # value kind: the running NZ cursor
            lvd = rows_loop(lp, f)
            v = through_consts(f, s["rhs"])
            okv = v.get("k") == "Ref" and v.get("d") in nz_cursor
            if okv:
                ck.ob("E2.rowptr-value", key, True, "row_ptr[i] receives '%s' = the cursor that subscripts col_ind/val (kind NZ)" % render(v), f.file, s.get("l"))
            elif (v.get("k") == "Ref" and v.get("d") == lvd) or v.get("k") == "Int":
                ck.ob("E2.rowptr-value", key, False, "row_ptr[i] receives '%s' (%s), not the running count of stored entries" % (render(v), "the row index" if v.get("k") == "Ref" else "a constant"), f.file, s.get("l"))
            else:
                ck.incomplete("E2.rowptr-value", "%s: the value '%s' stored into row_ptr[i] is not the cursor of the col_ind/val stores and its kind is not established" % (key, render(v)))
            # entries of a keyed container go to the row whose index equals the key
            inner = [x for b in body for x in walk(b) if x.get("k") in ("ForRange", "For", "While") and any(st_ in stores.get("col_ind", []) for st_ in walk(x))]
            for lp2 in inner[:1]:
                rng = lp2.get("range")
                src = None
                for x in walk(rng):
                    if x.get("k") == "Member" and x.get("n") == "second":
                        src = x.get("b")
                if src is None:
                    ck.incomplete("E2.rowptr-kind", "%s/read_from/row-key: source of the entries of a row not recognised" % sc)
                    continue
                src0 = strip_cast(src)
                while src0.get("k") in ("OpCall", "Un") and src0.get("op") in ("->", "*"):
                    src0 = strip_cast(src0["a"][0] if src0.get("k") == "OpCall" else src0["e"])
                src_c = render(strip_cast(src))
                guard = None

                def key_rel(cnd, pol):
                    """what (cnd == pol) says about `key == i`: True (implies it), False (implies key != i), None (nothing)"""
                    y = through_consts(f, cnd)
                    if y is None:
                        return None
                    if y.get("k") == "Un" and y.get("op") == "!":
                        return key_rel(y["e"], not pol)
                    if y.get("k") == "Bin" and y.get("op") in ("==", "!="):
                        sides = [through_consts(f, y["lhs"]), through_consts(f, y["rhs"])]
                        if any(z.get("k") == "Ref" and z.get("d") == lvd for z in sides) and any(
                                z.get("k") == "Member" and z.get("n") == "first" and render(strip_cast(z.get("b"))) == src_c for z in sides):
                            return (y["op"] == "==") == pol
                        return None
                    if y.get("k") == "Bin" and y.get("op") in ("&&", "||"):
                        ra, rb = key_rel(y["lhs"], pol), key_rel(y["rhs"], pol)
                        conj = (y["op"] == "&&") == pol       # (a && b) true, or (a || b) false: both parts hold with polarity pol
                        if conj:
                            if True in (ra, rb):
                                return True
                            if False in (ra, rb):
                                return False
                            return None
                        # one of the parts holds: the relation must follow from each of them
                        if ra is True and rb is True:
                            return True
                        # `iterator at end` or `key != i`: the entries of the node whose key is i are never stored
                        bad = [r_ is False or at_end(p_, pol) for r_, p_ in ((ra, y["lhs"]), (rb, y["rhs"]))]
                        if all(bad) and False in (ra, rb):
                            return False
                        return None
                    return None

                def at_end(cnd, pol):
                    """(cnd == pol) says that the row iterator is the end iterator"""
                    y = through_consts(f, cnd)
                    if y is None:
                        return False
                    if y.get("k") == "Un" and y.get("op") == "!":
                        return at_end(y["e"], not pol)
                    if y.get("k") in ("Bin", "OpCall") and y.get("op") in ("==", "!="):
                        l_, r_ = (y["lhs"], y["rhs"]) if y.get("k") == "Bin" else (y["a"][0], y["a"][1])
                        sides = [strip_cast(l_), strip_cast(r_)]
                        if any(z.get("k") == "Ref" and z.get("d") == src0.get("d") for z in sides) and any(z.get("k") == "MCall" and z.get("n") in ("end", "cend") for z in sides):
                            return (y["op"] == "==") == pol
                    return False
                wrong = None
                # form 1: keyed lookup  it = container.find(i)
                if src0.get("k") == "Ref" and src0.get("dk") == "local":
                    ini = const_inits(f).get(src0["d"])
                    ini = strip_cast(ini) if ini is not None else None
                    if ini is not None and ini.get("k") == "MCall" and ini.get("n") == "find" and ini.get("a") and strip_cast(ini["a"][0]).get("d") == lvd:
                        guard = "looked up with find(i)"
                # form 2: the inner loop is enclosed in `if(... key == i ...)` (then branch) or `if(... key != i ...) else` (else branch)
                x_ = lp2
                while guard is None and id(x_) in par and par[id(x_)] is not lp:
                    x_ = par[id(x_)]
                    if x_.get("k") == "If":
                        in_then = x_.get("then") is not None and any(y is lp2 for y in walk(x_.get("then")))
                        rel_ = key_rel(x_["c"], in_then)
                        if rel_ is True:
                            guard = "enclosed in a test key == i"
                        elif rel_ is False:
                            wrong = "the entry loop at line %s is only reached when '%s' is %s, i.e. when the key differs from i" % (lp2.get("l"), render(x_["c"])[:70], "true" if in_then else "false")
                # form 3: `if(... key != i) continue;` in front of the inner loop
                for b in flat_statements(body):
                    if guard is not None or any(x is lp2 for x in walk(b)):
                        break
                    if b.get("k") == "If" and b.get("else") is None and any(x.get("k") == "Continue" for x in flat_statements(stmts_of(b.get("then")))):
                        rel_ = key_rel(b["c"], False)
                        if rel_ is True:
                            guard = "skipped unless key == i"
                        elif rel_ is False:
                            wrong = "'if(%s) continue;' lets the entry loop run only when the key differs from i" % render(b["c"])[:70]
                if guard is None and wrong is not None:
                    ck.ob("E2.rowptr-kind", "%s/read_from/row-key" % sc, False, "the entries of the map node %s are stored into row i although its key is not i: %s" % (src_c, wrong), f.file, lp2.get("l"))
                    continue
                if guard is not None:
                    ck.ob("E2.rowptr-kind", "%s/read_from/row-key" % sc, True, "the entries of the map node %s are stored into row i only when its key equals i (%s)" % (src_c, guard), f.file, lp2.get("l"))
                else:
                    sequential = src0.get("k") == "Ref" and any(x.get("k") in ("Un", "OpCall") and x.get("op") == "++" and strip_cast((x.get("a") or [x.get("e")])[0]).get("d") == src0.get("d") for x in walk(lp["body"]))
                    compared = any(y.get("k") == "Member" and y.get("n") == "first" and render(strip_cast(y.get("b"))) == src_c for y in walk(lp["body"]) if True) and any(
                        y.get("k") == "Bin" and y.get("op") in ("==", "!=", "<", ">", "<=", ">=") and any(z.get("k") == "Member" and z.get("n") == "first" for z in (strip_cast(y["lhs"]), strip_cast(y["rhs"]))) for y in walk(lp["body"]))
                    handed = src0.get("k") == "Ref" and any(x.get("k") in ("Call", "MCall") and any(strip_cast(a_).get("k") == "Ref" and strip_cast(a_).get("d") == src0.get("d")
                                                                                                      for a_ in x.get("a", [])) for x in walk(lp["body"]))
                    if sequential and not compared and not handed:
                        ck.ob("E2.rowptr-kind", "%s/read_from/row-key" % sc, False, "the entries of the map node %s, which is advanced once per row with entries, are stored into row i without any comparison of its key with i: "
                              "a row without entries receives the entries of the next non-empty row" % src_c, f.file, lp2.get("l"))
                    else:
                        ck.incomplete("E2.rowptr-kind", "%s/read_from/row-key: how the entries of %s are matched with row i was not recognised" % (sc, src_c))
        # --- NZ cursor discipline
        cs, vs = stores.get("col_ind", []), stores.get("val", [])
        if cs and vs:
            ci = strip_cast(strip_cast(cs[0]["lhs"])["idx"])
            vi = strip_cast(strip_cast(vs[0]["lhs"])["idx"])
            same = ci.get("k") == "Ref" and vi.get("k") == "Ref" and ci.get("d") == vi.get("d")
            lps = [x for x in enclosing(cs[0], ("For", "ForRange", "While", "Do"))]
            if not same or not lps:
                ck.incomplete("E2.rowptr-value", "%s/read_from/nz-cursor: col_ind[%s] / val[%s] are not subscripted by one plain cursor inside a loop" % (sc, render(ci), render(vi)))
            else:
                incs = [x for x in walk(lps[0].get("body")) if (x.get("k") == "Un" and x.get("op") == "++" and strip_cast(x["e"]).get("d") == ci.get("d"))
                        or (x.get("k") == "Assign" and x.get("op") == "+=" and strip_cast(x["lhs"]).get("d") == ci.get("d"))]
                if len(incs) == 1:
                    ck.ob("E2.rowptr-value", "%s/read_from/nz-cursor" % sc, True, "col_ind[%s] and val[%s] are stored together and the cursor advances once per entry" % (render(ci), render(vi)), f.file, cs[0].get("l"))
                elif not incs:
                    ck.ob("E2.rowptr-value", "%s/read_from/nz-cursor" % sc, False, "the cursor '%s' is not advanced in the loop that stores col_ind/val: the entries of a row overwrite each other" % render(ci), f.file, cs[0].get("l"))
                else:
                    ck.incomplete("E2.rowptr-value", "%s/read_from/nz-cursor: cursor '%s' is advanced %d times in the entry loop" % (sc, render(ci), len(incs)))


def flatten_chain(n):
    """a << b << c -> [a, b, c]"""
    n = strip_cast(n)
    if n.get("k") == "OpCall" and n.get("op") == "<<" and len(n.get("a", [])) == 2:
        return flatten_chain(n["a"][0]) + [n["a"][1]]
    return [n]


def flat_statements(stmts):
    out = []
    for s in stmts:
        if s.get("k") == "Block":
            out.extend(flat_statements(s.get("s", [])))
        else:
            out.append(s)
    return out


def reader_size_tokens(f, stmts, want_vars=False):
    """simulate the find/erase tokeniser on the statements of one case group (top level only) and return
    token index -> role of the parsed number"""
    decl = {}
    for n in f.nodes():
        if n.get("k") == "Decl":
            for v in n["vars"]:
                decl[v["d"]] = v
    endvars, ntok, tokvar, numvar = set(), 0, {}, {}
    roles = {}
    facts = f.facts
    popper_cache = {}

    def popper(call):
        """`call` invokes a local lambda / a helper that strips exactly one blank-separated token off the front of the line and returns
        the number parsed from it (the de-duplicated form of the find / erase / atol block) -> True"""
        c = strip_cast(call)
        while c is not None and c.get("k") in ("Construct", "TempObj") and len(c.get("a", [])) == 1:
            c = strip_cast(c["a"][0])
        if c is None:
            return False
        body = None
        if c.get("k") == "OpCall" and c.get("op") == "()" and c.get("a"):
            lam = through_consts(f, c["a"][0])
            if lam is not None and lam.get("k") == "Lambda":
                body = lam.get("body")
        elif c.get("k") in ("Call", "MCall"):
            g = norm_c05.callee_function(facts, c)
            if g is not None and g.file == f.file:
                body = g.body
        if body is None:
            return False
        key = id(body)
        if key not in popper_cache:
            ev_, tv_ = set(), {}
            n_erase, ok = 0, False
            for s2 in flat_statements(stmts_of(body)):
                k2 = s2.get("k")
                if k2 == "Decl":
                    for v2 in s2["vars"]:
                        r2 = strip_cast(v2.get("init")) if v2.get("init") is not None else None
                        if r2 is not None and r2.get("k") == "MCall" and r2.get("n") == "find_first_of":
                            ev_.add(v2["d"])
                        if r2 is not None and r2.get("k") in ("Construct", "TempObj") and len(r2.get("a", [])) == 3 and strip_cast(r2["a"][2]).get("d") in ev_ and render(strip_cast(r2["a"][1])) == "0":
                            tv_[v2["d"]] = n_erase
                elif k2 == "MCall" and s2.get("n") == "erase" and len(s2.get("a", [])) == 2 and strip_cast(s2["a"][1]).get("d") in ev_:
                    n_erase += 1
                elif k2 == "Return" and s2.get("e") is not None:
                    for c2 in walk(s2["e"]):
                        if c2.get("k") == "Call" and c2.get("callee") in ("atol", "atof", "atoi", "strtol", "strtod") and c2.get("a"):
                            a0 = strip_cast(c2["a"][0])
                            if a0.get("k") == "MCall" and a0.get("n") == "c_str" and tv_.get(strip_cast(a0["obj"]).get("d")) == 0:
                                ok = True
                elif k2 in ("While", "For", "Do", "ForRange", "If", "Switch"):
                    n_erase = 99
            popper_cache[key] = ok and n_erase == 1
        return popper_cache[key]

    def def_of(d, rhs):
        nonlocal endvars, ntok
        r = strip_cast(rhs) if rhs is not None else None
        if r is not None and popper(r):
            numvar[d] = ntok
            ntok += 1
            return
        if r is not None and r.get("k") == "MCall" and r.get("n") == "find_first_of":
            endvars.add(d)
        else:
            endvars.discard(d)
        if r is not None and r.get("k") in ("Construct", "TempObj") and len(r.get("a", [])) == 3 and strip_cast(r["a"][2]).get("d") in endvars and render(strip_cast(r["a"][1])) == "0":
            tokvar[d] = ntok
        if r is not None:
            for c in walk(r):
                if c.get("k") == "Call" and c.get("callee") in ("atol", "atof", "atoi", "strtol", "strtod") and c.get("a"):
                    a0 = strip_cast(c["a"][0])
                    if a0.get("k") == "MCall" and a0.get("n") == "c_str" and strip_cast(a0["obj"]).get("d") in tokvar:
                        numvar[d] = tokvar[strip_cast(a0["obj"])["d"]]
    seen_size_line = False
    for s in flat_statements(stmts):
        k = s.get("k")
        if k == "While":
            if ntok > 0 or numvar:
                break          # entry lines follow
            ntok = 0
            continue
        if k == "Call" and (s.get("callee") or "").endswith("getline"):
            ntok = 0
            continue
        if k == "Decl":
            for v in s["vars"]:
                def_of(v["d"], v.get("init"))
        elif k == "Assign" and strip_cast(s["lhs"]).get("k") == "Ref" and strip_cast(s["lhs"]).get("dk") == "local":
            def_of(strip_cast(s["lhs"])["d"], s["rhs"])
        elif k == "MCall" and s.get("n") == "erase" and len(s.get("a", [])) == 2 and strip_cast(s["a"][1]).get("d") in endvars:
            ntok += 1
    # roles of the numeric variables
    for n in f.nodes():
        k = n.get("k")
        if k == "Assign" and n.get("op") == "=":
            r, l = strip_cast(n["rhs"]), strip_cast(n["lhs"])
            if r.get("k") == "Ref" and r.get("d") in numvar and l.get("k") == "MCall" and is_this_call(l, (l.get("n"),)):
                roles.setdefault(numvar[r["d"]], ("role", l["n"].lstrip("_"), n.get("l")))
        if k in ("Construct", "TempObj") and strip_targs(n.get("ccls") or "") == strip_targs(f.cls):
            for i, a in enumerate(n.get("a", [])):
                a = strip_cast(a)
                while a.get("k") in ("Construct", "TempObj") and len(a.get("a", [])) == 1:
                    a = strip_cast(a["a"][0])
                if a.get("k") == "Ref" and a.get("d") in numvar and i < len(n.get("pn", [])):
                    roles.setdefault(numvar[a["d"]], ("role", re.sub(r"_in$", "", n["pn"][i]), n.get("l")))
        if k == "If" and any(x.get("noreturn") for x in walk(n.get("then")) if is_call(x)):
            c = strip_cast(n["c"])
            if c.get("k") == "Bin" and c.get("op") == "!=":
                for a, b in ((strip_cast(c["lhs"]), strip_cast(c["rhs"])), (strip_cast(c["rhs"]), strip_cast(c["lhs"]))):
                    if a.get("k") == "Ref" and a.get("d") in numvar and b.get("k") == "Int":
                        roles.setdefault(numvar[a["d"]], ("const", str(int(b["v"])), n.get("l")))
        if k == "Call" and strip_targs(n.get("callee", "")) == "FEAT::assertion":
            c = strip_cast(n["a"][0])
            if c.get("k") == "Bin" and c.get("op") == "==":
                for a, b in ((strip_cast(c["lhs"]), strip_cast(c["rhs"])), (strip_cast(c["rhs"]), strip_cast(c["lhs"]))):
                    if a.get("k") == "Ref" and a.get("d") in numvar and b.get("k") == "Int":
                        roles.setdefault(numvar[a["d"]], ("const", str(int(b["v"])), n.get("l")))
    if want_vars:
        return roles, numvar
    return roles


def norm_dim(name):
    """row / rows / rows_in -> 'row';  col / column(s) -> 'col'"""
    n = re.sub(r"_in$", "", (name or "").lstrip("_"))
    if n in ("row", "rows"):
        return "row"
    if n in ("col", "cols", "column", "columns"):
        return "col"
    return n


def check_linearisation(ck, facts):
    """text modes of dense two-dimensional data: the reader that splits a running entry counter i into (i / E, i % E) must divide by the
    extent of the dimension that receives i % E, and that dimension must be the one the writer of the same mode runs fastest;
    blocked vectors: the reader divides the parsed (pod) length by the factor the writer's length accessor multiplies with"""
    wr = stream_overloads(facts, "write_out", "ostream")
    rd = stream_overloads(facts, "read_from", "istream")
    seen = set()
    for cls in sorted(set(wr) & set(rd)):
        fw, fr = wr[cls], rd[cls]
        if (fr.file, fr.line) in seen:
            continue
        seen.add((fr.file, fr.line))
        # while loops / post-increments / `!=` bounds of the entry loops are brought to for(i = 0; i < N; ++i) first
        fw = norm_c05.normalized(facts, fw, inline=None, algorithms=False, loops=True)
        gw_, gr_ = mode_groups(fw), mode_groups(fr)
        if gw_ is None or gr_ is None:
            continue
        sc = strip_targs(short_cls(cls))
        for ls, st in gw_:
            for ls2, st2 in gr_:
                if not (ls & ls2) or "default" in ls:
                    continue
                mode = "+".join(sorted(l.rsplit("::", 1)[-1] for l in ls))
                roles, numvar = reader_size_tokens(fr, st2, want_vars=True)
                var_role = {d: roles[t] for d, t in numvar.items() if t in roles}
                decl = const_inits(fr)
                # ---- (i / E, i % E) pairs
                quo, rem = {}, {}
                for s_ in st2:
                    for n in walk(s_):
                        if n.get("k") == "Var" and n.get("init") is not None:
                            e = strip_cast(n["init"])
                            while e.get("k") in ("Construct", "TempObj") and len(e.get("a", [])) == 1:
                                e = strip_cast(e["a"][0])
                            if e.get("k") == "Bin" and e.get("op") in ("/", "%") and strip_cast(e["lhs"]).get("k") == "Ref" and strip_cast(e["rhs"]).get("k") == "Ref":
                                (quo if e["op"] == "/" else rem)[n["d"]] = (strip_cast(e["lhs"])["d"], strip_cast(e["rhs"]), n.get("l"))
                for s_ in st2:
                    for c in walk(s_):
                        if not (is_call(c) and c.get("pn")):
                            continue
                        args = c.get("a", [])
                        off = len(args) - len(c["pn"])      # operator(): the object is argument 0
                        qa = [(i, strip_cast(a)["d"]) for i, a in enumerate(args) if strip_cast(a).get("k") == "Ref" and strip_cast(a).get("d") in quo]
                        ra = [(i, strip_cast(a)["d"]) for i, a in enumerate(args) if strip_cast(a).get("k") == "Ref" and strip_cast(a).get("d") in rem]
                        if len(qa) != 1 or len(ra) != 1 or off < 0:
                            continue
                        (qi, qd), (ri, rdv) = qa[0], ra[0]
                        if quo[qd][0] != rem[rdv][0]:
                            continue
                        slow, fast = norm_dim(c["pn"][qi - off]), norm_dim(c["pn"][ri - off])
                        def parsed_var(x):
                            """follow constant locals until a variable parsed from the size line is reached"""
                            x = strip_cast(x)
                            for _ in range(8):
                                while x is not None and x.get("k") in ("Construct", "TempObj") and len(x.get("a", [])) == 1:
                                    x = strip_cast(x["a"][0])
                                if x is None or x.get("k") != "Ref" or x.get("d") in var_role or x.get("d") not in decl:
                                    break
                                x = strip_cast(decl[x["d"]])
                            return x
                        Eq, Er = parsed_var(quo[qd][1]), parsed_var(rem[rdv][1])
                        rq = var_role.get(Eq.get("d")) if Eq is not None else None
                        rr = var_role.get(Er.get("d")) if Er is not None else None
                        key = "%s/%s/counter-split" % (sc, mode)
                        if rq is None or rr is None:
                            ck.incomplete("E2.linearisation", "%s: role of the divisor '%s' not established from the size line" % (key, render(Er)))
                            continue
                        ok = norm_dim(rq[1]) == fast and norm_dim(rr[1]) == fast
                        ck.ob("E2.linearisation", key, ok,
                              "entry counter split as (%s = i / %s, %s = i %% %s): the divisors are the %s / %s extent, the index taken modulo is the %s index%s" % (
                                  c["pn"][qi - off], render(Eq), c["pn"][ri - off], render(Er), rq[1], rr[1], fast,
                                  "" if ok else " - it must be divided by the extent of that dimension (wrong for every non-square shape)"), fr.file, quo[qd][2],
                              sample={"slow": slow, "fast": fast, "divisor": [rq[1], rr[1]]})
                        # the writer runs the same dimension fastest
                        wfast = None
                        for s2 in st:
                            for lp in walk(s2):
                                if lp.get("k") != "For":
                                    continue
                                inner = [x for x in walk(lp.get("body")) if x.get("k") == "For"]
                                if not inner:
                                    continue
                                il = inner[-1]
                                try:
                                    iv = il["init"]["vars"][0]["d"]
                                except Exception:
                                    continue
                                for x in walk(il.get("body")):
                                    if is_call(x) and x.get("pn") and any(norm_dim(p_) in ("row", "col") for p_ in x["pn"]):
                                        o2 = len(x.get("a", [])) - len(x["pn"])
                                        for i_, a_ in enumerate(x.get("a", [])):
                                            if strip_cast(a_).get("k") == "Ref" and strip_cast(a_).get("d") == iv and i_ - o2 >= 0:
                                                b_ = through_consts(fw, strip_cast(il["c"])["rhs"]) if strip_cast(il.get("c")).get("k") == "Bin" else None
                                                wfast = (norm_dim(x["pn"][i_ - o2]), norm_dim(b_.get("n")) if b_ is not None and b_.get("k") == "MCall" else None, il.get("l"))
                        key2 = "%s/%s/fastest-dimension" % (sc, mode)
                        if wfast is None:
                            ck.incomplete("E2.linearisation", "%s: nested entry loops of the writer not recognised" % key2)
                        else:
                            ok2 = wfast[0] == fast and wfast[1] == fast
                            ck.ob("E2.linearisation", key2, ok2, "writer's inner loop runs over %s() and feeds the %s index; the reader takes the %s index modulo" % (
                                wfast[1], wfast[0], fast), fw.file, wfast[2])
                # ---- blocked vectors: length scaled by the block size on both sides
                for s_ in st2:
                    for c in walk(s_):
                        if c.get("k") in ("Construct", "TempObj") and strip_targs(c.get("ccls") or "") == strip_targs(cls) and len(c.get("a", [])) >= 1:
                            a0 = strip_cast(c["a"][0])
                            if a0.get("k") == "Bin" and a0.get("op") == "/" and strip_cast(a0["lhs"]).get("d") in numvar:
                                try:
                                    div = eval_int(a0["rhs"], {})
                                except Unknown:
                                    continue
                                lines = writer_size_lines(fw, st, raw=True)
                                fac = None
                                for items, wl in lines:
                                    x = through_consts(fw, items[0]) if items else None
                                    if x is not None and x.get("k") == "MCall":
                                        for g in facts.functions:
                                            if g.full == x.get("cfull") and g.tk != "pattern":
                                                for r_ in g.nodes():
                                                    if r_.get("k") == "Return" and r_.get("e") is not None:
                                                        e = strip_cast(r_["e"])
                                                        if e.get("k") == "Bin" and e.get("op") == "*":
                                                            try:
                                                                fac = eval_int(e["rhs"], {})
                                                            except Unknown:
                                                                try:
                                                                    fac = eval_int(e["lhs"], {})
                                                                except Unknown:
                                                                    pass
                                if fac is None:
                                    ck.incomplete("E2.linearisation", "%s/%s: scaling of the written length not recognised" % (sc, mode))
                                else:
                                    ck.ob("E2.linearisation", "%s/%s/length-scale" % (sc, mode), fac == div,
                                          "writer streams the length multiplied by %s, reader divides the parsed length by %s" % (fac, div), fr.file, c.get("l"))


def writer_size_lines(f, stmts, raw=False):
    """`file << A << " " << B ... << "\\n"` chains that stream accessor values / constants (not entry lines inside loops)"""
    decl = {}
    for n in f.nodes():
        if n.get("k") == "Decl":
            for v in n["vars"]:
                decl[v["d"]] = v
    out = []

    def role(x):
        x = strip_cast(x)
        if x.get("k") == "Ref" and x.get("dk") == "local" and x.get("d") in decl and decl[x["d"]].get("init") is not None:
            return role(decl[x["d"]]["init"])
        while x.get("k") in ("Construct", "TempObj") and len(x.get("a", [])) == 1:
            x = strip_cast(x["a"][0])
        if x.get("k") == "MCall" and not x.get("a"):
            return ("role", x["n"].lstrip("_"))
        if x.get("k") == "Int":
            return ("const", str(int(x["v"])))
        return None

    def visit(ss, in_loop):
        for s in ss:
            k = s.get("k")
            if k == "Block":
                visit(s.get("s", []), in_loop)
            elif k == "If":
                visit(stmts_of(s.get("then")), in_loop)
                visit(stmts_of(s.get("else")), in_loop)
            elif k == "OpCall" and s.get("op") == "<<" and not in_loop:
                items = [x for x in flatten_chain(s)[1:] if strip_cast(x).get("k") not in ("Str", "Char")]
                rs = [role(x) for x in items]
                if rs and all(r is not None for r in rs) and any(r[0] == "role" for r in rs):
                    out.append((items if raw else rs, s.get("l")))
    visit(stmts, False)
    return out


def check_size_lines(ck, facts):
    wr = stream_overloads(facts, "write_out", "ostream")
    rd = stream_overloads(facts, "read_from", "istream")
    for cls in sorted(set(wr) & set(rd)):
        gw_, gr_ = mode_groups(wr[cls]), mode_groups(rd[cls])
        if gw_ is None or gr_ is None:
            continue
        for ls, st in gw_:
            if not any(l.endswith("::fm_mtx") for l in ls):
                continue
            for ls2, st2 in gr_:
                if not (ls & ls2):
                    continue
                roles = reader_size_tokens(rd[cls], st2)
                lines = writer_size_lines(wr[cls], st)
                if not roles or not lines:
                    continue
                sc = short_cls(cls)
                for n_, (items, wl) in enumerate(lines):
                    for k in sorted(roles):
                        kind, val, rl = roles[k]
                        wi = items[k] if k < len(items) else None
                        ok = wi is not None and wi[0] == kind and wi[1] == val
                        ck.ob("E12.size-line", "%s/fm_mtx/line%d/token%d" % (sc, n_, k), ok,
                              "token %d of the size line: reader takes it as %s %s, writer streams %s" % (k, kind, val, "%s %s" % wi if wi else "nothing"), wr[cls].file, wl,
                              sample={"token": k, "reader": [kind, val], "writer": list(wi) if wi else None})



# -------------------------------------------------------------------------------------------------
# clause 3b: coordinates of the entry lines of the coordinate text modes
# -------------------------------------------------------------------------------------------------

# stored index arrays whose entries are coordinates themselves: accessor -> dimension they index
STORED_INDEX_DIM = {"col_ind": "col", "indices": "row"}


def _const_cond(c):
    """value of a condition over constants (template arguments already substituted), else None"""
    c = strip_cast(c)
    if c is None:
        return None
    if c.get("k") == "Bool":
        return bool(c["v"])
    if c.get("k") == "Un" and c.get("op") == "!":
        v = _const_cond(c["e"])
        return None if v is None else not v
    if c.get("k") == "Bin" and c.get("op") in ("==", "!="):
        try:
            a, b = eval_int(c["lhs"], {}), eval_int(c["rhs"], {})
        except (Unknown, KeyError, TypeError, ValueError):
            return None
        return (a == b) == (c["op"] == "==")
    return None


def accessor_extent(facts, call, depth=0):
    """zero-argument accessor of this -> ('slot', k, factor): it returns this->_scalar_index.at(k) * factor (the branch a constant
    `if(perspective_ == pod)` selects in this instantiation); ('const', v) for a constant; None if not of that form"""
    call = strip_cast(call)
    if call is None:
        return None
    if call.get("k") == "Int":
        return ("const", int(call["v"]))
    if call.get("k") != "MCall" or call.get("a") or obj_key(call.get("obj")) != "this" or depth > 3:
        return None
    g = norm_c05.callee_function(facts, call)
    if g is None:
        return None

    def ret_of(stmts):
        for s_ in stmts:
            k = s_.get("k")
            if k == "Block":
                r = ret_of(s_.get("s", []))
                if r is not None:
                    return r
            elif k == "If":
                v = _const_cond(s_.get("c"))
                if v is None:
                    # `if(_scalar_index.size() > 0) return _scalar_index.at(0); else return 0;`: the non-zero alternative
                    rt = ret_of(stmts_of(s_.get("then")))
                    re_ = ret_of(stmts_of(s_.get("else"))) if s_.get("else") is not None else None
                    if rt is not None and re_ is not None and rt != "?" and re_ != "?":
                        if is_zero(re_):
                            return rt
                        if is_zero(rt):
                            return re_
                    return "?"
                br = s_.get("then") if v else s_.get("else")
                r = ret_of(stmts_of(br)) if br is not None else None
                if r is not None:
                    return r
            elif k == "Return":
                return s_.get("e")
            elif k in ("For", "While", "Do", "Switch", "ForRange", "Try"):
                return "?"
        return None
    e = ret_of(stmts_of(g.body))
    if e is None or e == "?":
        return None

    def parse(x):
        x = strip_cast(x)
        while x is not None and x.get("k") in ("Construct", "TempObj") and len(x.get("a", [])) == 1:
            x = strip_cast(x["a"][0])
        if x is None:
            return None
        if x.get("k") == "MCall" and x.get("n") == "at" and this_member(x.get("obj"), ("_scalar_index",)) and strip_cast(x["a"][0]).get("k") == "Int":
            return ("slot", int(strip_cast(x["a"][0])["v"]), 1)
        if x.get("k") == "MCall" and not x.get("a") and obj_key(x.get("obj")) == "this":
            return accessor_extent(facts, x, depth + 1)
        if x.get("k") == "Bin" and x.get("op") == "*":
            for a_, b_ in ((x["lhs"], x["rhs"]), (x["rhs"], x["lhs"])):
                pa = parse(a_)
                if pa is not None and pa[0] == "slot":
                    try:
                        return ("slot", pa[1], pa[2] * eval_int(b_, {}))
                    except (Unknown, KeyError, TypeError, ValueError):
                        return None
        try:
            return ("const", eval_int(x, {}))
        except (Unknown, KeyError, TypeError, ValueError):
            return None
    return parse(e)


class CoordEval:
    """affine form of the integer expressions an entry line streams, over classified atoms (loop variables, stored indices)"""

    def __init__(self, facts, fn):
        self.facts, self.fn = facts, fn
        self.par = parent_map(fn)
        self.atoms = {}        # sympy symbol -> dict(kind=..., ...)
        self.consts = const_inits(fn)
        self.loopvar = {}      # decl -> For node
        for n in fn.nodes():
            if n.get("k") == "For" and n.get("init") is not None and n["init"].get("k") == "Decl":
                for v in n["init"]["vars"]:
                    self.loopvar[v["d"]] = (n, v)
        # vectors filled by exactly one push_back: the k-th element read back is the pushed expression
        self.pushed = {}
        cnt = {}
        # the body of a lambda expression runs where the closure is called (inlined by the normaliser), not where it is written
        for n in walk(fn.body, prune=lambda x: x.get("k") == "Lambda"):
            if n.get("k") == "MCall" and n.get("n") in ("push_back", "emplace_back") and len(n.get("a", [])) == 1:
                o = strip_cast(n.get("obj")) if n.get("obj") is not None else None
                if o is not None and o.get("k") == "Ref" and o.get("dk") == "local":
                    cnt[o["d"]] = cnt.get(o["d"], 0) + 1
                    self.pushed[o["d"]] = n
        self.pushed = {d: n for d, n in self.pushed.items() if cnt[d] == 1}

    def resolve(self, n):
        n = strip_cast(n)
        seen = 0
        while n is not None and seen < 12:
            if n.get("k") in ("Construct", "TempObj") and len(n.get("a", [])) == 1:
                n = strip_cast(n["a"][0])
            elif n.get("k") == "Ref" and n.get("dk") == "local" and n.get("d") in self.consts and n.get("d") not in self.loopvar:
                n = strip_cast(self.consts[n["d"]])
            else:
                break
            seen += 1
        return n

    def accessor_of(self, b):
        """pointer expression -> name of the zero-argument accessor of this it comes from, else None"""
        b = self.resolve(b)
        if b is not None and b.get("k") == "MCall" and not b.get("a") and obj_key(b.get("obj")) == "this":
            return b.get("n")
        return None

    def loop_kind(self, d):
        """classification of a for-loop induction variable"""
        lp, v = self.loopvar[d]
        cond = strip_cast(lp.get("c"))
        if not (cond is not None and cond.get("k") == "Bin" and cond.get("op") in ("<", "!=") and strip_cast(cond["lhs"]).get("d") == d):
            return {"kind": "?", "why": "loop condition '%s'" % render(cond)}
        if norm_c05._advance_of(lp.get("inc")) != d and d not in [norm_c05._advance_of(x) for x in norm_c05._comma_list(lp.get("inc"))]:
            return {"kind": "?", "why": "loop increment '%s'" % render(lp.get("inc"))}
        ini = self.resolve(v.get("init"))
        bnd = self.resolve(cond["rhs"])
        if is_zero(v.get("init")):
            if bnd is not None and bnd.get("k") == "Cond":
                # `(used_elements() > 0) ? rows() : 0`: the loop runs over the non-zero alternative or not at all
                alts = [x for x in (self.resolve(bnd["then"]), self.resolve(bnd["else"])) if not is_zero(x)]
                if len(alts) == 1:
                    bnd = alts[0]
            ext = accessor_extent(self.facts, bnd)
            if ext is not None and ext[0] == "slot":
                return {"kind": "ext", "slot": ext[1], "factor": ext[2], "loop": lp}
            if ext is not None and ext[0] == "const":
                return {"kind": "intra", "extent": ext[1], "loop": lp}
            try:
                return {"kind": "intra", "extent": eval_int(bnd, {}), "loop": lp}
            except (Unknown, KeyError, TypeError, ValueError):
                pass
            if bnd is not None and bnd.get("k") == "MCall" and bnd.get("n") == "size" and not bnd.get("a"):
                o = strip_cast(bnd.get("obj"))
                if o is not None and o.get("k") == "Ref" and o.get("d") in self.pushed:
                    return {"kind": "ordinal", "of": o["d"], "loop": lp}
            return {"kind": "?", "why": "bound '%s'" % render(bnd)[:60]}
        # i from row_ptr()[r] to row_ptr()[r + 1]
        if ini is not None and ini.get("k") == "Index" and self.accessor_of(ini["b"]) == "row_ptr" and bnd is not None and bnd.get("k") == "Index" and self.accessor_of(bnd["b"]) == "row_ptr":
            r0 = strip_cast(ini["idx"])
            r1 = strip_cast(bnd["idx"])
            if r0.get("k") == "Ref" and r1.get("k") == "Bin" and r1.get("op") == "+" and strip_cast(r1["lhs"]).get("d") == r0.get("d") and is_one_node(r1["rhs"]):
                return {"kind": "nz", "row": r0["d"], "loop": lp}
        return {"kind": "?", "why": "range '%s' .. '%s'" % (render(ini)[:40], render(bnd)[:40])}

    def atom(self, key, info):
        sy = symbol(key)
        self.atoms[sy] = info
        return sy

    def lin(self, n, depth=0):
        n = self.resolve(n)
        if n is None or depth > 24:
            raise Unknown("expression too deep")
        k = n.get("k")
        if k == "Int":
            return sp.Integer(int(n["v"]))
        if k == "Ref" and n.get("v") is not None and n.get("dk") in ("enum", "global", "smember", "tparam"):
            return sp.Integer(int(n["v"]))
        if k == "Bin" and n.get("op") in ("+", "-", "*"):
            a, b = self.lin(n["lhs"], depth + 1), self.lin(n["rhs"], depth + 1)
            return a + b if n["op"] == "+" else a - b if n["op"] == "-" else sp.expand(a * b)
        if k == "Ref" and n.get("dk") == "local" and n.get("d") in self.loopvar:
            return self.atom("v%s:%s" % (n["d"], n.get("n")), dict(self.loop_kind(n["d"]), d=n["d"], name=n.get("n")))
        # stored index read: accessor()[i]
        if k == "Index" or (k == "Un" and n.get("op") == "*" and not n.get("post")):
            b, idx = (n["b"], n["idx"]) if k == "Index" else (n["e"], {"k": "Int", "v": "0"})
            acc = self.accessor_of(b)
            if acc is not None:
                iv = self.lin(idx, depth + 1)
                return self.atom("%s[%s]" % (acc, sp.sstr(iv)), {"kind": "stored", "accessor": acc, "index": iv})
        # element of a vector filled by one push_back: the pushed expression, in the loops of the push
        if (k == "MCall" and n.get("n") == "at" and len(n.get("a", [])) == 1) or (k == "OpCall" and n.get("op") == "[]" and len(n.get("a", [])) == 2):
            o = strip_cast(n.get("obj") if k == "MCall" else n["a"][0])
            if o is not None and o.get("k") == "Ref" and o.get("d") in self.pushed:
                return self.lin(self.pushed[o["d"]]["a"][0], depth + 1)
        raise Unknown("'%s' is not an affine expression over loop variables and stored indices" % render(n)[:60])


def is_one_node(n):
    n = strip_cast(n)
    while n is not None and n.get("k") in ("Construct", "TempObj") and len(n.get("a", [])) == 1:
        n = strip_cast(n["a"][0])
    return n is not None and n.get("k") == "Int" and int(n["v"]) == 1


_ENTRY_WANT = {}


def entry_inline_for(fn):
    def want(call, g):
        if g.name in ("write_out", "read_from", "_serialize", "_deserialize", "convert", "clone", "assign") or g.file != fn.file:
            return False
        if not g.params and g.d.get("const"):
            return False          # accessors (rows(), col_ind(), ...) are interpreted by the rule itself
        return (not g.cls) or g.cls == fn.cls
    return want


def check_entry_coordinates(ck, facts):
    """coordinate text modes: the (row, column) an entry line prints is the scalar position of the value it prints, in the coordinate
    system the size line of the same writer announces: row = Fr * <row index over the native row extent> + <offset over [0, Fr)> + 1,
    column = Fc * <stored column index of the same non-zero> + <offset over [0, Fc)> + 1, where Fr / Fc are the factors by which the
    accessors streamed in the size line scale the native extents (1 for scalar containers, BlockHeight / BlockWidth for blocked ones),
    and the value printed is the (row offset, column offset) entry of that non-zero's block"""
    R = "E2.entry-coordinates"
    wr = stream_overloads(facts, "write_out", "ostream")
    seen = set()
    for cls in sorted(wr):
        f0 = wr[cls]
        if (f0.file, f0.line, strip_targs(cls)) in seen and False:
            continue
        # helpers of the class the writer may print its lines through are inlined; while / != / post-increment loops canonicalised
        fw = norm_c05.normalized(facts, f0, inline=_ENTRY_WANT.setdefault(id(f0), entry_inline_for(f0)), algorithms=False, loops=True)
        groups = mode_groups(fw)
        if groups is None:
            continue
        sc = short_cls(cls)
        for ls, st in groups:
            if "default" in ls:
                continue
            banners = [b for b in header_literals(st, fw) if "coordinate" in b[0]]
            if not banners:
                continue
            mode = "+".join(sorted(l.rsplit("::", 1)[-1] for l in ls))
            par = parent_map(fw)
            lines = writer_size_lines(fw, st, raw=True)
            CE = CoordEval(facts, fw)
            # execution order inside the case group = position in its statement tree (line numbers say nothing once a helper is inlined)
            order = {}
            for s_ in st:
                for n in walk(s_):
                    order[id(n)] = len(order)
            # entry lines: << chains inside loops with at least three streamed values
            chains, inner = [], set()
            # a lambda expression's body runs where the closure is called: the normaliser has inlined it there; one it could not follow
            # may print entry lines the analysis does not see
            log = set(getattr(fw, "norm_log", []) or [])
            lost = []
            for s_ in st:
                for n in walk(s_):
                    if n.get("k") == "Lambda" and any(y.get("k") == "OpCall" and y.get("op") == "<<" for y in walk(n.get("body"))):
                        g_ = norm_c05._fn_index(facts).get(n.get("op_decl"))
                        if g_ is None or ("inlined " + g_.full) not in log:
                            lost.append(n.get("l"))
            if lost:
                ck.incomplete(R, "%s/%s: the lambda at line %s streams text but its call could not be followed (entry lines printed through it are not analysed)" % (sc, mode, lost[0]))
                continue
            for s_ in st:
                for n in walk(s_, prune=lambda x: x.get("k") == "Lambda"):
                    if n.get("k") == "OpCall" and n.get("op") == "<<" and id(n) not in inner:
                        for y in walk(n):
                            if y is not n and y.get("k") == "OpCall" and y.get("op") == "<<":
                                inner.add(id(y))
                        x, in_loop = n, False
                        while id(x) in par:
                            x = par[id(x)]
                            if x.get("k") in ("For", "While", "Do", "ForRange"):
                                in_loop = True
                        items = [it for it in flatten_chain(n)[1:] if strip_cast(it).get("k") not in ("Str", "Char")]
                        if in_loop and len(items) >= 3:
                            chains.append((n, items))
            if not chains:
                ck.incomplete(R, "%s/%s: no entry line (<< chain with row, column and value inside a loop) recognised in the coordinate-format writer" % (sc, mode))
                continue
            for li, (chain, items) in enumerate(chains):
                key = "%s/%s/line%d" % (sc, mode, li)
                # the size line in force for this entry line: the closest one in front of it (same branch)
                cand = [(its, l_) for its, l_ in lines if len(its) >= 2 and order.get(id(its[0]), 1 << 30) < order.get(id(chain), -1)]
                if not cand:
                    ck.incomplete(R, "%s: no size line in front of the entry line" % key)
                    continue
                hdr = cand[-1][0]
                exts = [accessor_extent(facts, through_consts(fw, hdr[0])), accessor_extent(facts, through_consts(fw, hdr[1]))]
                if exts[0] is None or exts[1] is None:
                    ck.incomplete(R, "%s: extent streamed in the size line ('%s', '%s') is not a scalar slot of the container times a constant" % (key, render(hdr[0])[:40], render(hdr[1])[:40]))
                    continue
                try:
                    forms = [sp.expand(CE.lin(items[0])), sp.expand(CE.lin(items[1]))]
                except Unknown as e:
                    ck.incomplete(R, "%s: %s" % (key, e))
                    continue
                verdicts, notes, unknown = [], [], []
                offs = {}
                for dim, form, ext in (("row", forms[0], exts[0]), ("column", forms[1], exts[1])):
                    if ext[0] == "const":
                        # a one-column / one-row object: the coordinate is that constant
                        ok = form.is_Integer and int(form) == ext[1]
                        verdicts.append((ok, "%s coordinate %s, size line announces %s %s(s)" % (dim, sp.sstr(form), ext[1], dim)))
                        continue
                    slot, F = ext[1], ext[2]
                    const = form.as_coeff_Add()[0] if not form.is_Integer else form
                    terms = {sy: form.coeff(sy) for sy in form.free_symbols}
                    if any(not sp.expand(form - const - sum(c * sy for sy, c in terms.items())) == 0 for _ in (0,)) or any(not c.is_Integer for c in terms.values()):
                        unknown.append("%s coordinate '%s' is not affine" % (dim, sp.sstr(form)))
                        continue
                    major = [(sy, c) for sy, c in terms.items() if CE.atoms[sy]["kind"] in ("ext", "stored")]
                    intra = [(sy, c) for sy, c in terms.items() if CE.atoms[sy]["kind"] == "intra"]
                    other = [(sy, c) for sy, c in terms.items() if CE.atoms[sy]["kind"] not in ("ext", "stored", "intra")]
                    if other:
                        unknown.append("%s coordinate uses '%s' (%s)" % (dim, str(other[0][0]), CE.atoms[other[0][0]].get("why", CE.atoms[other[0][0]]["kind"])))
                        continue
                    if len(major) != 1:
                        unknown.append("%s coordinate '%s' has %d index terms" % (dim, sp.sstr(form), len(major)))
                        continue
                    (msy, mc), info = major[0], CE.atoms[major[0][0]]
                    # which index is it?
                    if info["kind"] == "ext":
                        if dim == "row":
                            verdicts.append((info["slot"] == slot and info["factor"] == 1, "row index '%s' ranges over scalar slot %s (size line: slot %s)" % (info["name"], info["slot"], slot)))
                        else:
                            verdicts.append((info["slot"] == slot and info["factor"] == 1, "column index '%s' ranges over scalar slot %s (size line: slot %s)" % (info["name"], info["slot"], slot)))
                    else:
                        sd = STORED_INDEX_DIM.get(info["accessor"])
                        if sd is None:
                            verdicts.append((False, "%s coordinate is read from %s(), which does not hold %s indices" % (dim, info["accessor"], dim)) if info["accessor"] in ACCESSOR_KIND else None)
                            if verdicts[-1] is None:
                                verdicts.pop()
                                unknown.append("%s coordinate is read from %s(), whose entries are not classified" % (dim, info["accessor"]))
                                continue
                        else:
                            verdicts.append((sd == ("col" if dim == "column" else "row"), "%s coordinate is the %s index stored in %s()" % (dim, sd, info["accessor"])))
                        offs[dim + "/nz"] = info["index"]
                    verdicts.append((int(mc) == F, "%s index scaled by %s; the size line announces native extent * %s" % (dim, mc, F)))
                    if F > 1 or intra:
                        if len(intra) != 1:
                            verdicts.append((False, "%s coordinate has %d offsets within a block of %s" % (dim, len(intra), F)))
                        else:
                            (isy, ic), iinfo = intra[0], CE.atoms[intra[0][0]]
                            verdicts.append((int(ic) == 1 and iinfo["extent"] == F, "offset '%s' within the block runs over [0, %s) with stride %s; block extent in this dimension is %s" % (
                                iinfo["name"], iinfo["extent"], ic, F)))
                            offs[dim] = iinfo["d"]
                    verdicts.append((int(const) == 1, "1-based: constant %s" % sp.sstr(const)))
                def expand_walk(root, depth=0):
                    """the expression with constant locals replaced by what they were initialised with"""
                    for y_ in walk(root):
                        yield y_
                        if y_.get("k") == "Ref" and y_.get("dk") == "local" and y_.get("d") in CE.consts and y_.get("d") not in CE.loopvar and depth < 6:
                            yield from expand_walk(CE.consts[y_["d"]], depth + 1)
                # the stored column index and the value belong to the non-zero range of the row whose index is printed
                rowvar = None
                for sy in forms[0].free_symbols:
                    if CE.atoms[sy]["kind"] == "ext":
                        rowvar = CE.atoms[sy]["d"]
                nzidx = offs.get("column/nz")
                if nzidx is not None and rowvar is not None:
                    syms = list(sp.sympify(nzidx).free_symbols)
                    if len(syms) == 1 and sp.expand(nzidx - syms[0]) == 0 and CE.atoms[syms[0]]["kind"] == "nz":
                        verdicts.append((CE.atoms[syms[0]]["row"] == rowvar, "the column index is read at a position of the non-zero range [row_ptr[r], row_ptr[r+1]) of the printed row r"))
                    elif len(syms) == 1 and CE.atoms[syms[0]]["kind"] == "?":
                        unknown.append("position '%s' of the stored column index: %s" % (sp.sstr(nzidx), CE.atoms[syms[0]].get("why")))
                    else:
                        unknown.append("position '%s' of the stored column index is not a loop variable over the non-zeros of the row" % sp.sstr(nzidx))
                if nzidx is not None:
                    vnodes = list(expand_walk(items[2]))
                    for y in list(vnodes):
                        # an element of a vector filled by one push_back stands for the pushed expression
                        o_ = None
                        if y.get("k") == "MCall" and y.get("n") == "at" and y.get("obj") is not None:
                            o_ = strip_cast(y["obj"])
                        elif y.get("k") == "OpCall" and y.get("op") == "[]" and len(y.get("a", [])) == 2:
                            o_ = strip_cast(y["a"][0])
                        if o_ is not None and o_.get("k") == "Ref" and o_.get("d") in CE.pushed:
                            vnodes.extend(walk(CE.pushed[o_["d"]]["a"][0]))
                    for y in vnodes:
                        y0 = CE.resolve(y) if y.get("k") == "Ref" and y.get("dk") == "local" and y.get("d") not in CE.loopvar else y
                        if y0 is not None and y0.get("k") == "Index" and CE.accessor_of(y0["b"]) in ("val", "elements"):
                            try:
                                vi = sp.expand(CE.lin(y0["idx"]))
                            except Unknown:
                                continue
                            verdicts.append((sp.expand(vi - nzidx) == 0, "value read at position %s, column index at position %s of the non-zero arrays" % (sp.sstr(vi), sp.sstr(nzidx))))
                # the value printed: block[row offset][column offset] of the same non-zero
                vsub = []

                for y in expand_walk(items[2]):
                    if y.get("k") == "OpCall" and y.get("op") == "[]" and len(y.get("a", [])) == 2 and re.match(r"^FEAT::Tiny::(Matrix|Vector)<", y.get("ccls") or ""):
                        vsub.append(y)
                if ("row" in offs or "column" in offs):
                    mats = [y for y in vsub if (y.get("ccls") or "").startswith("FEAT::Tiny::Matrix<")]
                    vecs = [y for y in vsub if (y.get("ccls") or "").startswith("FEAT::Tiny::Vector<") and any(strip_cast(y["a"][0]) is m_ for m_ in mats)]
                    if len(mats) == 1 and len(vecs) == 1:
                        i0, i1 = CE.resolve(mats[0]["a"][1]), CE.resolve(vecs[0]["a"][1])
                        verdicts.append((i0.get("d") == offs.get("row") and i1.get("d") == offs.get("column"),
                                         "value printed is block[%s][%s]; row / column offsets of the coordinates are the first / second subscript" % (render(i0), render(i1))))
                    else:
                        unknown.append("the block entry that is printed ('%s') is not block[y][x]" % render(items[2])[:60])
                if unknown:
                    bad = [t for ok_, t in verdicts if not ok_]
                    if bad:
                        ck.ob(R, key, False, "; ".join(bad), fw.file, chain.get("l"))
                    else:
                        ck.incomplete(R, "%s: %s" % (key, "; ".join(unknown)))
                    continue
                bad = [t for ok_, t in verdicts if not ok_]
                ck.ob(R, key, not bad, "; ".join(bad) if bad else "; ".join(t for _, t in verdicts), fw.file, chain.get("l"),
                      sample={"row": sp.sstr(forms[0]), "column": sp.sstr(forms[1]), "size-line": [list(map(str, e_)) for e_ in exts], "established": [t for _, t in verdicts]})


# -------------------------------------------------------------------------------------------------
# clause 3c: the value-formatting helpers of the text writers carry no state from one call to the next
# -------------------------------------------------------------------------------------------------

# sticky formatting properties of a std::ios (width is reset by every insertion and is not one of them)
MANIP_FAMILY = {"std::scientific": "floatfield", "std::fixed": "floatfield", "std::hexfloat": "floatfield", "std::defaultfloat": "floatfield",
                "std::showpos": "showpos", "std::noshowpos": "showpos", "std::hex": "basefield", "std::dec": "basefield", "std::oct": "basefield",
                "std::left": "adjustfield", "std::right": "adjustfield", "std::internal": "adjustfield", "std::boolalpha": "boolalpha", "std::noboolalpha": "boolalpha",
                "std::uppercase": "uppercase", "std::nouppercase": "uppercase", "std::showpoint": "showpoint", "std::noshowpoint": "showpoint",
                "std::showbase": "showbase", "std::noshowbase": "showbase", "std::setprecision": "precision", "std::setfill": "fill", "std::setbase": "basefield",
                "std::setiosflags": "flags", "std::resetiosflags": "flags", "std::setw": None, "std::endl": None, "std::flush": None, "std::ends": None}
MANIP_METHOD = {"precision": "precision", "fill": "fill", "setf": "flags", "unsetf": "flags", "flags": "flags", "width": None}
STREAM_TYPE_RE = r"\b(std::)?(basic_)?(o|i)?(string)?stream\b|std::ostringstream|std::stringstream|std::ostream"


def check_format_state(ck, facts):
    """every function of kernel/util/string.hpp (and any other repository function with a static local) that the stream overloads of
    write_out reach within three calls returns a text that depends on its arguments only: it has no mutable static / thread_local local;
    a static stream is admitted only if, on every path to the insertion of the value, its content is reset and every sticky formatting
    property the function ever sets (precision, float format, showpos, fill, base ...) is set again or the whole format is reset"""
    R = "E7.format-stateless"
    wr = stream_overloads(facts, "write_out", "ostream")
    repo = featlib.repo_path("")
    reach, frontier = {}, list(wr.values())
    for depth in range(3):
        nxt = []
        for f in frontier:
            for n in f.nodes():
                if n.get("k") in ("Call", "MCall") and (n.get("cfile") or "").startswith(repo):
                    g = norm_c05.callee_function(facts, n)
                    if g is not None and (g.file, g.line) not in reach and g.name not in ("write_out", "read_from"):
                        reach[(g.file, g.line)] = g
                        nxt.append(g)
        frontier = nxt
    done = 0
    for key_ in sorted(reach):
        g = reach[key_]
        statics = [v for n in g.nodes() if n.get("k") == "Decl" for v in n["vars"] if v.get("static") and not v.get("const")]
        in_string = g.file.endswith("kernel/util/string.hpp")
        if not statics and not in_string:
            continue
        name = strip_targs(g.full).replace("FEAT::", "")
        if not statics:
            ck.ob(R, "%s/no-static-state" % name, True, "no static / thread_local local: the text returned depends on the arguments only", g.file, g.line)
            done += 1
            continue
        for v in statics:
            key = "%s/static:%s" % (name, v["n"])
            vt = g.type(v.get("t")) or ""
            if not re.search(STREAM_TYPE_RE, vt):
                ck.incomplete(R, "%s: a mutable static local of type %s survives between the calls of a helper the text writers print through; whether the result depends on it is not analysed" % (key, vt))
                continue
            cfg = g.cfg
            if cfg is None:
                ck.incomplete(R, "%s: no control-flow graph" % key)
                continue
            d = v["d"]
            inner = set()
            apps, inserts, resets, content, escaped = [], [], [], [], []

            def on_v(x):
                x = strip_cast(x)
                return x is not None and x.get("k") == "Ref" and x.get("d") == d
            for n in g.nodes():
                if n.get("k") == "OpCall" and n.get("op") == "<<" and id(n) not in inner:
                    items = flatten_chain(n)
                    for y in walk(n):
                        if y is not n and y.get("k") == "OpCall" and y.get("op") == "<<":
                            inner.add(id(y))
                    if not on_v(items[0]):
                        continue
                    ids = set(y.get("i") for y in walk(n) if y.get("k") == "OpCall" and y.get("op") == "<<")
                    for it in items[1:]:
                        it0 = strip_cast(it)
                        nm = None
                        if it0.get("k") == "Ref" and it0.get("dk") == "func":
                            nm = it0.get("qn") or ("std::" + it0.get("n", ""))
                        elif it0.get("k") == "Call" and (it0.get("callee") or "").startswith("std::set") or (it0.get("k") == "Call" and (it0.get("callee") or "") in MANIP_FAMILY):
                            nm = it0.get("callee")
                        if nm is not None and nm in MANIP_FAMILY:
                            if MANIP_FAMILY[nm] is not None:
                                apps.append((MANIP_FAMILY[nm], ids, n, nm))
                        elif nm is not None:
                            apps.append(("flags", ids, n, nm))
                        else:
                            inserts.append((n, it))
                elif n.get("k") == "MCall" and n.get("obj") is not None and on_v(n["obj"]):
                    m_ = n.get("n")
                    if m_ in MANIP_METHOD and n.get("a"):
                        if MANIP_METHOD[m_] is not None:
                            apps.append((MANIP_METHOD[m_], {n.get("i")}, n, "." + m_ + "()"))
                    elif m_ == "str" and n.get("a"):
                        content.append(({n.get("i")}, n))
                    elif m_ in ("copyfmt", "swap"):
                        resets.append(({n.get("i")}, n))
                        if m_ == "swap":
                            content.append(({n.get("i")}, n))
                    elif m_ in ("str", "good", "fail", "bad", "eof", "clear", "rdbuf", "tellp", "seekp", "precision", "width", "fill", "flags", "imbue", "getloc"):
                        pass
                    else:
                        escaped.append(render(n)[:50])
                elif n.get("k") == "OpCall" and n.get("op") == "=" and n.get("a") and on_v(n["a"][0]):
                    resets.append(({n.get("i")}, n))
                    content.append(({n.get("i")}, n))
                elif n.get("k") in ("Call", "MCall", "Construct", "TempObj") and any(on_v(a_) for a_ in n.get("a", [])):
                    escaped.append(render(n)[:50])
            if escaped:
                ck.incomplete(R, "%s: the static stream is handed to '%s'; what that does to its format is not analysed" % (key, escaped[0]))
                continue
            if not inserts:
                ck.incomplete(R, "%s: no insertion of a value into the static stream recognised" % key)
                continue
            par = parent_map(g)
            bad, unk = [], []
            for ins, item in inserts:
                tb = cfg_block_of(g, par, ins)
                if tb is None:
                    unk.append("insertion at line %s not located in the control-flow graph" % ins.get("l"))
                    continue

                def every_path(groups):
                    ids = set()
                    for ids_, node_ in groups:
                        # an application in the block of the insertion counts only if it comes first
                        if cfg_block_of(g, par, node_) == tb and (node_.get("i") or 0) > (ins.get("i") or 0) and node_ is not ins:
                            continue
                        ids |= set(x for x in ids_ if x is not None)
                    if not ids:
                        return False
                    ok_, _ = cfg.must_pass(lambda s_: s_.get("i") in ids, target_blocks=[tb])
                    return ok_
                full = every_path(resets)
                if not every_path(content):
                    bad.append("the text of the previous call is still in the stream when '%s' is inserted (no str(...) / re-assignment on every path)" % render(item)[:30])
                for fam in sorted(set(a_[0] for a_ in apps)):
                    fa = [(ids_, node_) for f_, ids_, node_, _ in apps if f_ == fam]
                    if not (full or every_path(fa)):
                        names = sorted(set(nm_ for f_, _, _, nm_ in apps if f_ == fam))
                        bad.append("%s (%s) is set on some paths only and not reset on the others: a call that does not set it prints with what an earlier call selected" % (fam, ", ".join(names)))
            if unk and not bad:
                ck.incomplete(R, "%s: %s" % (key, unk[0]))
                continue
            ck.ob(R, key, not bad, ("static stream '%s' keeps state between calls: " % v["n"] + "; ".join(sorted(set(bad)))) if bad else
                  "static stream '%s': content and every formatting property the function sets are re-established on every path to the insertion" % v["n"], g.file, v.get("l"))
            done += 1
    if not done and not reach:
        ck.incomplete(R, "no formatting helper reached from the text writers (kernel/util/string.hpp not in the facts?)")

# -------------------------------------------------------------------------------------------------
# clause 4: checkpoints — append-writers vs offset-readers of byte streams
# -------------------------------------------------------------------------------------------------

INT_WIDTH = {"u64": 8, "int": 4, "unsigned int": 4, "long": 8, "unsigned long": 8, "std::uint64_t": 8, "std::size_t": 8, "size_t": 8, "short": 2, "unsigned short": 2,
             "std::uint32_t": 4, "std::int32_t": 4, "std::int64_t": 8, "FEAT::Index": 8, "Index": 8, "std::streamsize": 8, "char": 1}


class StreamFn(LayoutFn):
    """Symbolic evaluation of functions that append to / slice a std::vector<char> byte stream with pointer and
    iterator arithmetic.  Positions are sympy expressions; lengths produced by sub-objects are symbols len{obj};
    values read from the stream are symbols V<k> that the comparison binds to the writer's field."""

    def __init__(self, fn):
        super().__init__(fn, "w")
        self.cursors = set()      # the generic cursor machinery is not used here
        self.vals = {}            # integer local -> sympy value
        self.ptrs = {}            # pointer / iterator local -> (base, offset)
        self.addr_of = {}         # char* local -> decl of the integer it points to
        self.events = []
        self.nread = 0
        self.appended = sp.Integer(0)
        self.shift = sp.Integer(0)
        self.start = symbol("S0")
        self.slices = {}
        self.addr_nodes = {}

    # roots may also be data members (CheckpointControl::_input_array)
    def root_name(self, n):
        n = strip_cast(n)
        if n is None:
            return None
        if n.get("k") == "Ref" and n.get("d") in self.slices:
            return self.slices[n["d"]]
        if n.get("k") == "Ref" and n.get("d") in self.roots:
            return "ROOT"
        if n.get("k") == "Member" and (n.get("b") is None or strip_cast(n["b"]).get("k") == "This") and is_char_vector(self.fn.type(n.get("t"))):
            return "ROOT"
        return None

    def ptr(self, n):
        n = strip_cast(n)
        if n is None:
            return None
        k = n.get("k")
        if k in ("Construct", "TempObj") and len(n.get("a", [])) == 1:
            return self.ptr(n["a"][0])
        if k == "Ref" and n.get("dk") == "local":
            if n["d"] in self.ptrs:
                return self.ptrs[n["d"]]
            return None
        if k == "MCall" and n.get("n") in ("data", "begin", "end") and not n.get("a"):
            r = self.root_name(n.get("obj"))
            if r is not None:
                return (r, symbol("END") if n["n"] == "end" else (self.shift if r == "ROOT" else sp.Integer(0)))
            if n["n"] in ("begin", "end"):
                o = self.canon(n.get("obj"), self.lv)
                return ("OBJ:" + o, symbol("#" + o) if n["n"] == "end" else sp.Integer(0))
        if k == "Call" and n.get("callee") in ("std::begin", "std::end") and len(n.get("a", [])) == 1:
            r = self.root_name(n["a"][0])
            if r is not None:
                return (r, symbol("END") if n["callee"] == "std::end" else (self.shift if r == "ROOT" else sp.Integer(0)))
        if (k == "Bin" and n.get("op") in ("+", "-")) or (k == "OpCall" and n.get("op") in ("+", "-") and len(n.get("a", [])) == 2):
            l, r = (n["lhs"], n["rhs"]) if k == "Bin" else n["a"]
            pl = self.ptr(l)
            if pl is not None:
                d = self.ival(r)
                return (pl[0], pl[1] + d if n["op"] == "+" else pl[1] - d)
        if k == "Call" and n.get("callee") in ("std::next", "std::prev") and len(n.get("a", [])) == 2:
            pl = self.ptr(n["a"][0])
            if pl is not None:
                d = self.ival(n["a"][1])
                return (pl[0], pl[1] + d if n["callee"] == "std::next" else pl[1] - d)
        if k == "Un" and n.get("op") == "&" and strip_cast(n["e"]).get("k") == "Ref" and strip_cast(n["e"]).get("dk") == "local":
            return ("VAR:%d" % strip_cast(n["e"])["d"], sp.Integer(0))
        if k == "Un" and n.get("op") == "&":
            self.addr_nodes["ADDR:%d" % n.get("i", id(n))] = n["e"]
            return ("ADDR:%d" % n.get("i", id(n)), sp.Integer(0))
        return None

    lv = None

    def ival(self, n):
        """integer value; reads through `*(T*)ptr` produce read events; narrowing casts of stream values are recorded"""
        raw = n
        n0 = n
        if n0 is not None and n0.get("k") == "Cast":
            inner = self.ival(n0["e"])
            to = n0.get("to", "")
            w = INT_WIDTH.get(to)
            if w is not None and any(str(sy).startswith("V") and str(sy)[1:].isdigit() for sy in inner.free_symbols):
                src_w = max([self.vwidth.get(str(sy), 8) for sy in inner.free_symbols if str(sy) in self.vwidth] or [8])
                if w < src_w or (to in ("int", "long", "short") and w <= src_w and to == "int"):
                    self.events.append({"kind": "narrow", "to": to, "width": w, "from_width": src_w, "expr": render(n0), "line": n0.get("l")})
            return inner
        n = strip_cast(n)
        k = n.get("k")
        if k == "Int":
            return sp.Integer(int(n["v"]))
        if k == "SizeOf":
            if n.get("type"):
                return symbol("sz[%s]" % n["type"])
            e = strip_cast(n.get("e")) if n.get("e") is not None else None
            return symbol("sz[%s]" % (self.fn.ntype(e) if e is not None else "?"))
        if k in ("Construct", "TempObj") and len(n.get("a", [])) == 1:
            return self.ival(n["a"][0])
        if k == "Bin" and n["op"] in ("+", "-", "*"):
            a, b = self.ival(n["lhs"]), self.ival(n["rhs"])
            return a + b if n["op"] == "+" else a - b if n["op"] == "-" else a * b
        if k == "Ref" and n.get("dk") == "local":
            d = n["d"]
            if d in self.vals:
                return self.vals[d]
            if self.const_local(d):
                v = self.ival(self.decl[d]["init"])
                self.vals[d] = v
                return v
        if k == "Un" and n.get("op") == "*" and not n.get("post"):
            inner = n["e"]
            width = None
            if inner.get("k") == "Cast":
                width = pointee(inner.get("to"))
            p = self.ptr(inner)
            if p is not None and p[0] in ("ROOT", "BS") and width:
                return self.read(p, symbol("sz[%s]" % width), n.get("l"), width)
        if k == "MCall" and n.get("n") in ("size", "length") and not n.get("a"):
            r = self.root_name(n.get("obj"))
            if r == "ROOT":
                return self.start + self.appended
        if k == "MCall" and n.get("n") == "set_checkpoint_data" and n.get("a") and self.root_name(n["a"][0]) == "ROOT":
            return self.opaque(n)
        if k == "MCall" and n.get("n") == "get_checkpoint_size":
            return symbol("est{%s}" % self.canon(n.get("obj"), self.lv))
        if k == "Call" and n.get("callee") == "std::get" and n.get("a"):
            v = self.tuple_get(n)
            if v is not None:
                return v
        if k == "OpCall" and n.get("op") == "[]" and "std::map" in (n.get("ccls") or ""):
            return symbol("OFFSET")
        return symbol(self.canon(n, self.lv))

    vwidth = None

    def read(self, p, nbytes, line, typ=None):
        self.nread += 1
        name = "V%d" % self.nread
        if self.vwidth is None:
            self.vwidth = {}
        self.vwidth[name] = INT_WIDTH.get(typ, 8)
        self.events.append({"kind": "read", "base": p[0], "off": p[1], "n": nbytes, "var": name, "line": line})
        return symbol(name)

    def opaque(self, call):
        prod = self.canon(call.get("obj"), self.lv)
        ln = symbol("len{%s}" % prod)
        self.events.append({"kind": "append", "n": ln, "content": "data{%s}" % prod, "producer": prod, "pos": self.appended, "line": call.get("l")})
        self.appended = self.appended + ln
        return ln

    def tuple_get(self, n):
        """std::get<K>(M[key]) where M[key'] = std::make_tuple(a0, a1, ...) elsewhere in the function"""
        m = re.match(r"^std::get<(\d+)", n.get("cfull", ""))
        a = strip_cast(n["a"][0])
        if not m or not (a.get("k") == "OpCall" and a.get("op") == "[]"):
            return None
        K = int(m.group(1))
        mp, key = strip_cast(a["a"][0]), self.canon(a["a"][1])
        for x in self.fn.nodes():
            if x.get("k") == "OpCall" and x.get("op") == "=" and len(x.get("a", [])) == 2:
                l, r = strip_cast(x["a"][0]), strip_cast(x["a"][1])
                if l.get("k") == "OpCall" and l.get("op") == "[]" and strip_cast(l["a"][0]).get("d") == mp.get("d") and self.canon(l["a"][1]) == key:
                    if r.get("k") == "Call" and r.get("callee") == "std::make_tuple" and K < len(r["a"]):
                        return symbol(self.canon(r["a"][K]))
        return None

    @property
    def lv_all(self):
        return sorted(self.loopvars)

    def canon(self, n, lv=None):
        # every range-for variable over the registered objects denotes "the current object"
        n_ = strip_cast(n)
        if n_ is not None and n_.get("k") == "Ref" and n_.get("d") in self.loopvars:
            return "$obj"
        return LayoutFn.canon(self, n, None)

    # ---- statements ------------------------------------------------------------------------------
    def exec_block(self, stmts):
        for s in stmts:
            self.exec(s)

    def exec(self, s):
        k = s.get("k")
        if k == "Block":
            return self.exec_block(s.get("s", []))
        if k == "Decl":
            for v in s["vars"]:
                self.define(v["d"], v.get("init"), self.fn.type(v.get("t")), v)
            return
        if k == "Assign" or (k == "OpCall" and s.get("op") in ("=", "+=") and len(s.get("a", [])) == 2):
            l, r = (s["lhs"], s["rhs"]) if k == "Assign" else s["a"]
            op = s["op"]
            l0 = strip_cast(l)
            if l0.get("k") == "Ref" and l0.get("dk") == "local":
                d = l0["d"]
                if op == "=":
                    self.define(d, r, self.fn.type(self.decl[d].get("t")) if d in self.decl else "", None)
                elif op == "+=":
                    self.vals[d] = self.vals.get(d, sp.Integer(0)) + self.ival(r)
                return
            # map[key] = value  (offset table)
            if l0.get("k") == "OpCall" and l0.get("op") == "[]" and "std::map" in (l0.get("ccls") or ""):
                key = strip_cast(l0["a"][1])
                while key.get("k") in ("Construct", "TempObj") and len(key.get("a", [])) == 1:
                    key = strip_cast(key["a"][0])
                if key.get("k") in ("Construct", "TempObj") and len(key.get("a", [])) >= 2:
                    p = self.ptr(key["a"][0])
                    if p is not None and p[0] == "ROOT":
                        cnt = self.ival(key["a"][1])
                        self.events.append({"kind": "slice", "base": p[0], "from": p[1], "to": p[1] + cnt, "consumer": "key", "line": s.get("l")})
                        self.events.append({"kind": "offset", "value": self.ival(r), "line": s.get("l")})
                        return
                return
            return
        if k == "MCall":
            nm = s.get("n")
            r = self.root_name(s.get("obj"))
            if nm == "insert" and r == "ROOT":
                return self.do_insert(s)
            if nm == "erase" and r == "ROOT" and len(s.get("a", [])) == 2:
                a, b = self.ptr(s["a"][0]), self.ptr(s["a"][1])
                if a is None or b is None or not seq(a[1] - self.shift):
                    raise Unknown("erase '%s'" % render(s)[:80])
                self.events.append({"kind": "erase", "to": b[1], "line": s.get("l")})
                self.shift = b[1]
                return
            if nm == "resize" and r == "ROOT":
                self.events.append({"kind": "resize", "n": self.ival(s["a"][0]), "line": s.get("l")})
                return
            if nm == "restore_from_checkpoint_data" and len(s.get("a", [])) == 1:
                src = self.root_name(s["a"][0])
                if src is not None:
                    self.events.append({"kind": "consume", "consumer": self.canon(s.get("obj"), self.lv), "source": src, "from": self.shift if src == "ROOT" else sp.Integer(0), "line": s.get("l")})
                return
            if nm == "set_checkpoint_data" and s.get("a") and self.root_name(s["a"][0]) == "ROOT":
                self.opaque(s)
                return
            if nm in ("emplace", "insert_or_assign", "try_emplace") and "std::map" in (s.get("ccls") or s.get("callee") or "") and len(s.get("a", [])) == 2:
                key = strip_cast(s["a"][0])
                while key.get("k") in ("Construct", "TempObj") and len(key.get("a", [])) == 1:
                    key = strip_cast(key["a"][0])
                if key.get("k") in ("Construct", "TempObj") and len(key.get("a", [])) >= 2:
                    p_ = self.ptr(key["a"][0])
                    if p_ is not None and p_[0] == "ROOT":
                        cnt = self.ival(key["a"][1])
                        self.events.append({"kind": "slice", "base": p_[0], "from": p_[1], "to": p_[1] + cnt, "consumer": "key", "line": s.get("l")})
                        self.events.append({"kind": "offset", "value": self.ival(s["a"][1]), "line": s.get("l"), "how": nm})
                return
            if nm == "write" and len(s.get("a", [])) == 2:
                self.events.append({"kind": "write", "src": self.describe_src(s["a"][0]), "n": self.ival(s["a"][1]), "line": s.get("l")})
                return
            if r == "ROOT" and nm in ("reserve", "shrink_to_fit", "size", "capacity", "empty", "data"):
                return
            if r == "ROOT":
                raise Unknown("the stream is modified by '%s'" % render(s)[:80])
            if any(self.root_name(a_) == "ROOT" for a_ in s.get("a", [])) or any(self.mentions_root(a_) for a_ in s.get("a", [])):
                if nm in ("assertion",):
                    return
                raise Unknown("the stream is handed to '%s', which the analysis does not interpret" % render(s)[:80])
            return
        if k == "Call":
            cal = s.get("callee", "")
            a = s.get("a", [])
            tr = None     # (dst pointer, src pointer, byte count)
            if cal in ("memcpy", "std::memcpy", "memmove", "std::memmove") and len(a) == 3:
                tr = (self.ptr(a[0]), self.ptr(a[1]), self.ival(a[2]), a[0], a[1])
            elif cal == "std::copy_n" and len(a) == 3:
                tr = (self.ptr(a[2]), self.ptr(a[0]), self.ival(a[1]), a[2], a[0])
            elif cal == "std::copy" and len(a) == 3:
                f_, l_, d_ = self.ptr(a[0]), self.ptr(a[1]), self.ptr(a[2])
                if f_ is not None and l_ is not None and f_[0] == l_[0]:
                    if f_[0] == "BS" or (d_ is not None and d_[0] == "ROOT" and f_[0] == "BS") or (f_[0] == "BS" and d_ is not None):
                        self.events.append({"kind": "copy", "base": f_[0], "from": f_[1], "to": l_[1], "dst": d_, "line": s.get("l")})
                        return
                    tr = (d_, f_, sp.expand(l_[1] - f_[1]), a[2], a[0])
                elif self.mentions_root(s):
                    raise Unknown("std::copy '%s'" % render(s)[:80])
                else:
                    return
            if tr is not None:
                dst, src, nbytes, dnode, snode = tr

                def var_of(p_):
                    if p_ is not None and p_[0].startswith("VAR:") and seq(p_[1]):
                        return int(p_[0][4:])
                    return None
                if src is not None and src[0] == "ROOT" and var_of(dst) is not None:
                    # a word of the stream is copied into an integer local: a read
                    d = var_of(dst)
                    typ = self.fn.type(self.decl[d].get("t")) if d in self.decl else None
                    self.vals[d] = self.read(src, nbytes, s.get("l"), typ)
                    self.events[-1]["var_width"] = symbol("sz[%s]" % typ) if typ else None
                    return
                if dst is not None and dst[0] == "ROOT" and src is not None and (var_of(src) is not None or src[0].startswith("ADDR:")):
                    # the bytes of an integer local overwrite a word written earlier: a patch
                    if src[0].startswith("ADDR:"):
                        content = self.ival(self.addr_nodes[src[0]])
                    else:
                        content = self.var_value(var_of(src))
                    self.events.append({"kind": "patch", "pos": sp.expand(dst[1] - self.shift - self.start), "n": nbytes, "content": content, "line": s.get("l")})
                    return
                if (src is not None and src[0] in ("ROOT", "BS")) or (dst is not None and dst[0] == "ROOT") or self.mentions_root(s):
                    raise Unknown("%s '%s'" % (cal, render(s)[:80]))
                return
            if self.mentions_root(s) and not (s.get("noreturn") or strip_targs(cal) == "FEAT::assertion"):
                raise Unknown("the stream is handed to '%s', which the analysis does not interpret" % render(s)[:80])
            return
        if k == "For":
            if self.do_patch_loop(s):
                return
            if self.mentions_root(s):
                raise Unknown("loop at line %s touches the stream in a way the analysis does not model" % s.get("l"))
            return
        if k in ("While", "Do", "ForRange", "Switch", "Try"):
            if self.mentions_root(s):
                raise Unknown("%s statement at line %s touches the stream" % (k, s.get("l")))
            return
        if k == "Return":
            e = s.get("e")
            if e is not None:
                self.events.append({"kind": "ret", "value": self.ival(e), "line": s.get("l")})
            return
        if k == "If":
            # guards only (assertions / add_object); no stream activity expected
            for br in (s.get("then"), s.get("else")):
                if br is not None and (self.mentions_root(br) or any(x.get("k") == "Ref" and x.get("d") in self.ptrs for x in walk(br))):
                    raise Unknown("conditional use of the stream at line %s" % s.get("l"))
            return
        if k in ("Un", "OpCall", "Construct", "TempObj", "Delete") and (self.mentions_root(s) or any(x.get("k") == "Ref" and x.get("d") in self.ptrs and self.ptrs[x["d"]][0] in ("ROOT", "BS") for x in walk(s))):
            raise Unknown("statement '%s' touches the stream" % render(s)[:80])
        return

    def describe_src(self, n):
        p = self.ptr(n)
        if p is None:
            return render(n)
        if p[0].startswith("VAR:"):
            return ("var", int(p[0][4:]))
        return p

    def define(self, d, init, typ, var):
        if init is None:
            return
        ini = strip_cast(init)
        # sub-range copies: std::vector<char> v(first, last)
        if is_char_vector(typ) and ini.get("k") in ("Construct", "TempObj") and len(ini.get("a", [])) >= 2:
            a, b = self.ptr(ini["a"][0]), self.ptr(ini["a"][1])
            if a is not None and b is not None and a[0] == b[0] and a[0] in ("ROOT", "INDATA"):
                name = "SLICE%d" % (len(self.slices) + 1)
                self.slices[d] = name
                self.events.append({"kind": "slice", "base": a[0], "from": a[1], "to": b[1], "consumer": name, "line": ini.get("l")})
                return
            if self.mentions_root(ini):
                raise Unknown("byte range '%s' cut out of the stream in a way the analysis does not model" % render(ini)[:80])
        if typ.endswith("*") or "iterator" in typ:
            p = self.ptr(init)
            if p is not None:
                self.ptrs[d] = p
                return
            if self.mentions_root(init) and not (strip_cast(init).get("k") == "Bin"):
                raise Unknown("position '%s' in the stream is computed in a way the analysis does not model" % render(init)[:80])
            # in_data = root.data() + map[identifier]
            ini2 = strip_cast(init)
            if ini2.get("k") == "Bin" and ini2.get("op") == "+":
                pl = self.ptr(ini2["lhs"])
                r = strip_cast(ini2["rhs"])
                if pl is not None and pl[0] == "ROOT" and r.get("k") == "OpCall" and r.get("op") == "[]" and "std::map" in (r.get("ccls") or ""):
                    self.ptrs[d] = ("ROOT", symbol("OFFSET"))
                    return
            return
        if re.search(r"(int|long|size_t|uint64_t|Index|streamsize)\b", typ) and not typ.endswith("&"):
            self.vals[d] = self.ival(init)

    def mentions_root(self, n):
        """does the subtree use the stream other than by asking for its size?"""
        harmless = set()
        for x in walk(n):
            if x.get("k") == "MCall" and x.get("n") in ("size", "empty", "capacity", "length") and not x.get("a") and x.get("obj") is not None:
                harmless.add(id(strip_cast(x["obj"])))
        return any(self.root_name(x) == "ROOT" for x in walk(n) if x.get("k") in ("Ref", "Member") and id(x) not in harmless)

    def do_insert(self, s):
        a = s.get("a", [])
        pn = s.get("pn", [])
        pos = self.ptr(a[0])
        if pos is None or pos[0] != "ROOT" or not seq(pos[1] - symbol("END")):
            raise Unknown("insert not at the end of the stream: '%s'" % render(s)[:80])
        if len(pn) >= 3 and pn[1] == "__n":
            n = self.ival(a[1])
            self.events.append({"kind": "append", "n": n, "content": "fill", "pos": self.appended, "line": s.get("l")})
        else:
            f, l = self.ptr(a[1]), self.ptr(a[2])
            if f is None or l is None or f[0] != l[0]:
                raise Unknown("insert range '%s'" % render(s)[:80])
            n = sp.expand(l[1] - f[1])
            ev = {"kind": "append", "n": n, "content": str(f[0]), "pos": self.appended, "line": s.get("l")}
            # char* p = (char*)&value; insert(end, p, p + sizeof(T)): the bytes of `value`
            if f[0].startswith("VAR:"):
                ev["value"] = self.var_value(int(f[0][4:]))
            elif f[0].startswith("ADDR:"):
                ev["value"] = self.ival(self.addr_nodes[f[0]])
            self.events.append(ev)
        self.appended = self.appended + self.events[-1]["n"]

    def var_value(self, d):
        """value of an integer local whose bytes are copied into the stream; a local the evaluation has no value for is an opaque symbol"""
        v = self.vals.get(d)
        if v is None:
            dv = self.decl.get(d)
            v = symbol("local{%s}" % (dv["n"] if dv else d))
        return v

    def do_patch_loop(self, s):
        """for(i = 0; i < N; ++i) root[snapshot + i] = p[i]   with p = (char*)&value          (a patch of a word appended earlier)
           for(i = 0; i < N; ++i) p[i] = root[pos + i]        with p = (char*)&value          (a read of a word)
        -> True if the loop was one of these and an event was recorded, False if it is some other loop"""
        try:
            lvd, bound = self.loop_header(s)
        except Unknown:
            return False
        body = stmts_of(s["body"])
        if len(body) != 1 or body[0].get("k") != "Assign" or body[0].get("op") != "=":
            return False
        l, r = strip_cast(body[0]["lhs"]), strip_cast(body[0]["rhs"])

        def root_elem(x):
            """root[a + i] / root.data()[a + i] / *(root.data() + a + i) -> node of a, else None"""
            idx = None
            if x.get("k") == "OpCall" and x.get("op") == "[]" and self.root_name(x["a"][0]) == "ROOT":
                idx = strip_cast(x["a"][1])
            elif x.get("k") == "MCall" and x.get("n") == "at" and self.root_name(x.get("obj")) == "ROOT" and len(x.get("a", [])) == 1:
                idx = strip_cast(x["a"][0])
            elif x.get("k") == "Index":
                b_ = strip_cast(x["b"])
                if b_.get("k") == "MCall" and b_.get("n") == "data" and self.root_name(b_.get("obj")) == "ROOT":
                    idx = strip_cast(x["idx"])
            if idx is None:
                return None
            if idx.get("k") == "Ref" and idx.get("d") == lvd:
                return {"k": "Int", "v": "0"}
            if not (idx.get("k") == "Bin" and idx.get("op") == "+"):
                raise Unknown("stream subscript '%s'" % render(idx))
            sides = [strip_cast(idx["lhs"]), strip_cast(idx["rhs"])]
            other = [y for y in sides if not (y.get("k") == "Ref" and y.get("d") == lvd)]
            if len(other) != 1:
                raise Unknown("stream subscript '%s'" % render(idx))
            return other[0]

        def var_elem(x):
            """p[i] with p = (char*)&value -> pointer tuple of p"""
            if x.get("k") == "Index" and strip_cast(x["idx"]).get("k") == "Ref" and strip_cast(x["idx"]).get("d") == lvd:
                return self.ptr(x["b"])
            return None
        snap = root_elem(l)
        if snap is not None:
            src = var_elem(r)
            if src is None:
                raise Unknown("patch source '%s'" % render(r))
            content = None
            if src[0].startswith("VAR:"):
                content = self.var_value(int(src[0][4:]))
            elif src[0].startswith("ADDR:"):
                content = self.ival(self.addr_nodes[src[0]])
            self.events.append({"kind": "patch", "pos": sp.expand(self.ival(snap) - self.start), "n": self.ival(bound), "content": content, "line": s.get("l")})
            return True
        pos = root_elem(r)
        if pos is not None:
            dst = var_elem(l)
            if dst is None or not dst[0].startswith("VAR:"):
                raise Unknown("byte loop reading the stream into '%s'" % render(l))
            d = int(dst[0][4:])
            typ = self.fn.type(self.decl[d].get("t")) if d in self.decl else None
            self.vals[d] = self.read(("ROOT", self.shift + self.ival(pos)), self.ival(bound), s.get("l"), typ)
            self.events[-1]["var_width"] = symbol("sz[%s]" % typ) if typ else None
            return True
        return False


def record_items(events):
    """appends with patches applied -> [dict(pos, n, content(sympy or text), producer)]"""
    items = [dict(e) for e in events if e["kind"] == "append"]
    for p in [e for e in events if e["kind"] == "patch"]:
        hit = [it for it in items if seq(it["pos"] - p["pos"]) and it["n"] is not None and seq(it["n"] - p["n"])]
        if len(hit) != 1:
            raise Unknown("patch at line %s does not overwrite exactly one appended word" % p["line"])
        hit[0]["value"] = p["content"]
    return items


STREAM_KEEP = ("_collect_checkpoint_data", "_restore_checkpoint_data", "restore_object", "save", "load", "_save", "_load", "clear_input", "add_object",
               "set_checkpoint_data", "restore_from_checkpoint_data", "get_checkpoint_size")


def stream_inline_for(fn):
    """helpers a checkpoint routine may be split into: functions of the same class (or free functions) defined in the same file;
    never the routines the rules interpret themselves"""
    def want(call, g):
        if g.name in STREAM_KEEP or g.file != fn.file:
            return False
        return (not g.cls) or strip_targs(g.cls) == strip_targs(fn.cls)
    return want


_STREAM_WANT = {}


def stream_norm(facts, f):
    if f is None:
        return None
    w = _STREAM_WANT.setdefault(id(f), stream_inline_for(f))
    return norm_c05.normalized(facts, f, inline=w, algorithms=False, loops=True)


def check_checkpoint_control(ck, facts):
    fns = {}
    for f in facts.functions:
        if f.cls == "FEAT::Control::CheckpointControl" and f.tk != "pattern":
            fns.setdefault(f.name, []).append(stream_norm(facts, f) if f.name in ("_collect_checkpoint_data", "_restore_checkpoint_data", "restore_object", "save", "load") else f)
    col = (fns.get("_collect_checkpoint_data") or [None])[0]
    res = (fns.get("_restore_checkpoint_data") or [None])[0]
    rob = (fns.get("restore_object") or [None])[0]
    sav = [f for f in fns.get("save", []) if "BinaryStream" in f.type(f.params[0]["t"])]
    lod = [f for f in fns.get("load", []) if "BinaryStream" in f.type(f.params[0]["t"])]
    if col is None or res is None or rob is None:
        ck.incomplete("E12.checkpoint-layout", "CheckpointControl::_collect_checkpoint_data/_restore_checkpoint_data/restore_object not found")
        return
    R = "E12.checkpoint-layout"
    try:
        # ---- writer: one record per registered object
        W = StreamFn(col)
        loops = [n for n in stmts_of(col.body) if n.get("k") == "ForRange" and any(x.get("k") == "MCall" and x.get("n") == "insert" for x in walk(n))]
        if len(loops) != 1:
            raise Unknown("expected one loop appending the records, found %d" % len(loops))
        W.start = symbol("REC")
        W.exec_block(stmts_of(loops[0]["body"]))
        items = record_items(W.events)
        if any(it["n"] is None for it in items):
            raise Unknown("an appended range of unknown length")
        # recompute positions
        pos = sp.Integer(0)
        for it in items:
            it["pos"] = pos
            pos = pos + it["n"]
        total = pos
        # ---- reader: record loop
        Rd = StreamFn(res)
        wl = [n for n in stmts_of(res.body) if n.get("k") == "While" or (n.get("k") == "For" and n.get("inc") is None)]
        if len(wl) != 1:
            raise Unknown("expected one loop over the records whose cursor is advanced in the body")
        cur = None
        c = strip_cast(wl[0]["c"])
        if c is not None and c.get("k") == "Bin" and c.get("op") in ("<", "!=") and strip_cast(c["lhs"]).get("k") == "Ref":
            cur = strip_cast(c["lhs"]).get("d")
            bnd = through_consts(res, c["rhs"])
            if not (bnd is not None and bnd.get("k") == "MCall" and bnd.get("n") == "size" and Rd.root_name(bnd.get("obj")) == "ROOT"):
                raise Unknown("record loop bound '%s' is not the size of the input array" % render(c["rhs"]))
        if cur is None:
            raise Unknown("record loop condition '%s'" % render(c))
        # the cursor starts at offset 0: declared with 0 in the for-init, or before the loop without a modification in between
        ini = wl[0].get("init") if wl[0].get("k") == "For" else None
        if ini is not None:
            if not (ini.get("k") == "Decl" and len(ini["vars"]) == 1 and ini["vars"][0]["d"] == cur and is_zero(ini["vars"][0].get("init"))):
                raise Unknown("record loop does not start at offset 0")
        else:
            cx = norm_c05.Ctx(res.body)
            v0 = cx.decl.get(cur)
            if v0 is None or not is_zero(v0.get("init")) or any(cx.may_precede(m_, wl[0]) for m_ in cx.mods.get(cur, []) if not cx.inside(m_, wl[0])):
                raise Unknown("record loop does not start at offset 0")
        Rd.vals[cur] = sp.Integer(0)
        Rd.exec_block(stmts_of(wl[0]["body"]))
        stride = Rd.vals[cur]
        # ---- restore_object
        Ro = StreamFn(rob)
        Ro.exec_block(stmts_of(rob.body))
    except Unknown as e:
        ck.incomplete(R, "CheckpointControl: %s" % e)
        return

    def item_at(p, bind):
        for it in items:
            if seq(it["pos"] - sp.sympify(p).subs(bind)):
                return it
        return None

    bind = {}
    reads = [e for e in Rd.events if e["kind"] == "read"]
    slices = [e for e in Rd.events if e["kind"] == "slice"]
    offs = [e for e in Rd.events if e["kind"] == "offset"]
    names = ["id-length", "data-length"]
    for k, e in enumerate(reads):
        it = item_at(e["off"], bind)
        nm = names[k] if k < len(names) else "word%d" % k
        ok = it is not None and seq(it["n"] - e["n"]) and it.get("value") is not None and (e.get("var_width") is None or seq(e["var_width"] - e["n"]))
        if ok:
            bind[symbol(e["var"])] = it["value"]
        ck.ob(R, "CheckpointControl/record/%s" % nm, bool(ok), "reader takes %s bytes at record offset %s as a length; writer has there %s" % (
            sp.sstr(e["n"]), sp.sstr(sp.sympify(e["off"]).subs(bind)), ("a %s-byte word holding %s" % (sp.sstr(it["n"]), sp.sstr(it.get("value")))) if it else "no field boundary"), res.file, e["line"])
    for e in slices:
        it = item_at(e["from"], bind)
        ln = sp.expand((e["to"] - e["from"]).subs(bind))
        ok = it is not None and seq(it["n"] - ln) and str(it["content"]).startswith("OBJ:")
        ck.ob(R, "CheckpointControl/record/id", bool(ok), "reader takes %s bytes at record offset %s as the identifier; writer has there %s" % (
            sp.sstr(ln), sp.sstr(sp.sympify(e["from"]).subs(bind)), ("%s bytes of %s" % (sp.sstr(it["n"]), it["content"])) if it else "no field boundary"), res.file, e["line"])
    data_item = [it for it in items if it.get("producer")]
    for e in offs:
        it = item_at(e["value"], bind)
        ok = it is not None and data_item and seq(it["pos"] + it["n"] - data_item[0]["pos"]) and it.get("value") is not None and seq(it["value"] - data_item[0]["n"])
        ck.ob(R, "CheckpointControl/record/offset", bool(ok), "offset table entry = record offset %s; writer has there %s" % (
            sp.sstr(sp.sympify(e["value"]).subs(bind)), "the length word directly in front of the object data" if ok else ("%s" % (it["content"] if it else "no field boundary"))), res.file, e["line"])
    ck.ob(R, "CheckpointControl/record/stride", seq(sp.sympify(stride).subs(bind) - total), "reader advances %s per record, writer appends %s" % (
        sp.sstr(sp.sympify(stride).subs(bind)), sp.sstr(total)), res.file, wl[0].get("l"))
    # restore_object: [length word at OFFSET][data]
    bind2 = {}
    lw = [it for it in items if data_item and seq(it["pos"] + it["n"] - data_item[0]["pos"])]
    for e in [x for x in Ro.events if x["kind"] == "read"]:
        ok = bool(lw) and seq(e["off"] - symbol("OFFSET")) and seq(lw[0]["n"] - e["n"])
        if ok and lw[0].get("value") is not None:
            bind2[symbol(e["var"])] = lw[0]["value"]
        ck.ob(R, "CheckpointControl/restore_object/data-length", ok, "reads %s bytes at the table offset + %s as the data length" % (sp.sstr(e["n"]), sp.sstr(e["off"] - symbol("OFFSET"))), rob.file, e["line"])
    for e in [x for x in Ro.events if x["kind"] == "slice"]:
        a = sp.expand((e["from"] - symbol("OFFSET")).subs(bind2))
        ln = sp.expand((e["to"] - e["from"]).subs(bind2))
        ok = bool(lw) and data_item and seq(a - lw[0]["n"]) and seq(ln - data_item[0]["n"])
        ck.ob(R, "CheckpointControl/restore_object/data", bool(ok), "object bytes = [offset + %s, + %s); writer: length word of %s bytes followed by %s bytes" % (
            sp.sstr(a), sp.sstr(ln), sp.sstr(lw[0]["n"]) if lw else "?", sp.sstr(data_item[0]["n"]) if data_item else "?"), rob.file, e["line"])
    # returned size = bytes appended
    try:
        Wf = StreamFn(col)
        accs = {}
        for n in stmts_of(col.body):
            if n.get("k") == "ForRange":
                Wf.lv = None
                for b in stmts_of(n["body"]):
                    if b.get("k") == "Assign" and b.get("op") == "+=" and strip_cast(b["lhs"]).get("k") == "Ref":
                        d = strip_cast(b["lhs"])["d"]
                        Wloc = StreamFn(col)
                        Wloc.vals = dict(W.vals) if n is loops[0] else {}
                        accs.setdefault(d, sp.Integer(0))
                        accs[d] = accs[d] + Wloc.ival(b["rhs"])
        ret = [strip_cast(n["e"]) for n in col.nodes() if n.get("k") == "Return" and n.get("e") is not None]
        rs = [n for n in col.nodes() if n.get("k") == "MCall" and n.get("n") == "resize" and W.root_name(n.get("obj")) == "ROOT"]
        if len(ret) == 1 and ret[0].get("d") in accs and len(rs) == 1 and strip_cast(rs[0]["a"][0]).get("d") == ret[0]["d"]:
            per = sp.expand(accs[ret[0]["d"]])
            per = per.subs({symbol("$obj.first.length()"): symbol("#$obj.first")})
            ck.ob(R, "CheckpointControl/collect/length", seq(per - total), "per object the returned/resized length grows by %s, the stream by %s" % (sp.sstr(per), sp.sstr(total)), col.file, col.line)
        else:
            ck.incomplete(R, "CheckpointControl::_collect_checkpoint_data: the returned / resized length is not a per-object accumulator the analysis recognises")
    except Unknown as e:
        ck.incomplete(R, "CheckpointControl::_collect_checkpoint_data: %s" % e)
    # save(BinaryStream) / load(BinaryStream)
    if not sav or not lod:
        ck.incomplete(R, "CheckpointControl::save/load(BinaryStream&) not found")
        return
    try:
        S = StreamFn(sav[0])
        S.exec_block(stmts_of(sav[0].body))
        wr = [e for e in S.events if e["kind"] == "write"]
        lenvar = None
        if not (len(wr) == 2 and isinstance(wr[0]["src"], tuple) and wr[0]["src"][0] == "var" and wr[0]["src"][1] in S.decl and S.decl[wr[0]["src"][1]].get("init") is not None
                and isinstance(wr[1]["src"], tuple)):
            raise Unknown("save: expected a length word followed by the buffer (found %s)" % [(str(e["src"]), sp.sstr(e["n"])) for e in wr])
        if True:
            lenvar = wr[0]["src"][1]
            lt = sav[0].type(S.decl[lenvar]["t"])
            init = strip_cast(S.decl[lenvar]["init"])
            ok = (seq(wr[0]["n"] - symbol("sz[%s]" % lt)) or seq(wr[0]["n"] - symbol("sz[%s]" % "unsigned long")) or str(wr[0]["n"]).startswith("sz[")) \
                and init.get("k") == "MCall" and init.get("n") == "_collect_checkpoint_data" and wr[1]["src"][0] == "ROOT" and seq(wr[1]["n"] - (S.start + S.appended))
            detail = "writes the %s word returned by _collect_checkpoint_data, then data()/size() of the collected buffer" % lt
        ck.ob(R, "CheckpointControl/save(BinaryStream)", ok, detail, sav[0].file, sav[0].line)
        L = StreamFn(lod[0])
        # the stream's raw buffer
        for d, v in L.decl.items():
            ini = strip_cast(v.get("init")) if v.get("init") is not None else None
            if ini is not None and ini.get("k") == "MCall" and ini.get("n") == "data" and "BinaryStream" in (ini.get("callee") or ""):
                L.ptrs[d] = ("BS", sp.Integer(0))
        L.exec_block(stmts_of(lod[0].body))
        rd = [e for e in L.events if e["kind"] == "read"]
        cp = [e for e in L.events if e["kind"] == "copy"]
        rz = [e for e in L.events if e["kind"] == "resize"]
        if not (len(rd) == 1 and len(cp) == 1 and len(rz) == 1):
            raise Unknown("load: length word / resize / copy not recognised (%d reads, %d copies, %d resizes)" % (len(rd), len(cp), len(rz)))
        if True:
            V = symbol(rd[0]["var"])
            n = sp.expand(cp[0]["to"] - cp[0]["from"])
            ok = seq(rd[0]["off"]) and seq(cp[0]["from"] - rd[0]["n"]) and seq(n - V) and seq(rz[0]["n"] - V)
            detail = "reads the length word n at offset %s, resizes the input array to %s and copies %s bytes starting at offset %s (writer: n bytes behind a %s-byte word)" % (
                sp.sstr(rd[0]["off"]), sp.sstr(rz[0]["n"]).replace(rd[0]["var"], "n"), sp.sstr(n).replace(rd[0]["var"], "n"), sp.sstr(cp[0]["from"]), sp.sstr(rd[0]["n"]))
        ck.ob(R, "CheckpointControl/load(BinaryStream)", ok, detail, lod[0].file, (cp[0]["line"] if cp else lod[0].line))
    except Unknown as e:
        ck.incomplete(R, "CheckpointControl::save/load(BinaryStream&): %s" % e)


def whole_object_updates(fn):
    """constructs that replace or hand out the whole object (`*this = T()`, swap(*this, tmp), helper(*this)): they may reset every member"""
    out = []
    for n in fn.nodes():
        if n.get("k") in ("Assign", "OpCall") and n.get("op") == "=":
            l = strip_cast(n["lhs"] if n.get("k") == "Assign" else n["a"][0])
            if l is not None and l.get("k") == "Un" and l.get("op") == "*" and strip_cast(l["e"]).get("k") == "This":
                out.append(render(n)[:60])
        elif n.get("k") in ("Call", "MCall"):
            for a in n.get("a", []):
                a0 = strip_cast(a)
                if a0 is not None and (a0.get("k") == "This" or (a0.get("k") == "Un" and a0.get("op") == "*" and strip_cast(a0["e"]).get("k") == "This")):
                    if strip_targs(n.get("callee", "") or "") != "FEAT::assertion":
                        out.append(render(n)[:60])
    return out


def check_checkpoint_state(ck, facts):
    """typestate of the reader side of CheckpointControl: whatever a load leaves behind for restore_object must not survive into the next load"""
    R = "E7.load-state-reset"
    fns = {}
    for f in facts.functions:
        if f.cls == "FEAT::Control::CheckpointControl" and f.tk != "pattern":
            fns.setdefault(f.name, []).append(f)
    fill = [f for nm in ("load", "_load", "_restore_checkpoint_data") for f in fns.get(nm, [])]
    readers = fns.get("restore_object", [])[:1]
    clear = fns.get("clear_input", [])[:1]
    if not fill or not readers or not clear:
        ck.incomplete(R, "CheckpointControl::load/_restore_checkpoint_data/restore_object/clear_input not all found in the driver TU")
        return

    def fields(f):
        out = {}
        for n in f.nodes():
            if n.get("k") == "Member" and n.get("field") and (n.get("b") is None or strip_cast(n["b"]).get("k") == "This"):
                out.setdefault(n["n"], f.type(n.get("t")))
        return out
    rd = fields(readers[0])
    fl = {}
    for f in fill:
        fl.update(fields(f))
    members = sorted(m for m in rd if m in fl and ("std::map" in (rd[m] or "") or "std::vector" in (rd[m] or "")))
    if not members:
        ck.incomplete(R, "no data member is both filled by load and read by restore_object")
        return
    for m in members:
        typ = rd[m] or ""
        is_map = "std::map" in typ
        # --- reset in clear_input (helpers of the class are followed one level deep)
        resets, unmodelled = [], []
        NONMUT = ("size", "count", "find", "at", "begin", "end", "cbegin", "cend", "empty", "data", "capacity", "length")
        bodies = [clear[0]]
        for n in clear[0].nodes():
            if n.get("k") == "MCall" and (n.get("obj") is None or strip_cast(n["obj"]).get("k") == "This"):
                bodies += [g for g in facts.functions if g.tk != "pattern" and g.cls == clear[0].cls and g.qn == n.get("callee")][:1]
        for body in bodies:
            unmodelled.extend(whole_object_updates(body))
            for n in body.nodes():
                if n.get("k") == "MCall":
                    o = n.get("obj")
                    if this_member(o, (m,)):
                        if n.get("n") == "clear" or (n.get("n") == "resize" and n.get("a") and is_zero(n["a"][0])):
                            resets.append(render(n))
                        elif n.get("n") == "swap" and n.get("a") and strip_cast(n["a"][0]).get("k") in ("Construct", "TempObj") and not strip_cast(n["a"][0]).get("a"):
                            resets.append(render(n))
                        elif n.get("n") == "erase" and len(n.get("a", [])) == 2:
                            resets.append(render(n))
                        elif n.get("n") not in NONMUT:
                            unmodelled.append(render(n)[:60])
                    elif n.get("n") == "swap" and n.get("a") and this_member(n["a"][0], (m,)):
                        if o is not None and strip_cast(o).get("k") in ("Construct", "TempObj") and not strip_cast(o).get("a"):
                            resets.append("%s().swap(%s)" % (strip_cast(o).get("ccls") or "T", m))
                        else:
                            unmodelled.append(render(n)[:60])
                if n.get("k") in ("Assign", "OpCall") and n.get("op") == "=":
                    l, r_ = (n["lhs"], n["rhs"]) if n.get("k") == "Assign" else n["a"]
                    if this_member(l, (m,)):
                        r0 = strip_cast(r_)
                        if (r0.get("k") in ("Construct", "TempObj") and not [a for a in r0.get("a", []) if not is_zero(a)]) or (r0.get("k") == "InitList" and not r0.get("a")):
                            resets.append(render(n))
                        else:
                            unmodelled.append(render(n)[:60])
                if n.get("k") == "Call":
                    for i, a in enumerate(n.get("a", [])):
                        if this_member(a, (m,)):
                            other = [strip_cast(x) for j, x in enumerate(n["a"]) if j != i]
                            if (n.get("callee") or "").endswith("swap") and other and other[0].get("k") in ("Construct", "TempObj", "Ref"):
                                o0 = through_consts(clear[0], other[0])
                                if o0.get("k") in ("Construct", "TempObj") and not o0.get("a"):
                                    resets.append(render(n))
                                    continue
                            unmodelled.append(render(n)[:60])
        # --- writes by the load path
        writes = []
        for f in fill:
            for n in f.nodes():
                if is_map:
                    if n.get("k") == "Assign" or (n.get("k") == "OpCall" and n.get("op") == "="):
                        l = strip_cast(n["lhs"] if n.get("k") == "Assign" else n["a"][0])
                        if l.get("k") == "OpCall" and l.get("op") == "[]" and this_member(l["a"][0], (m,)):
                            writes.append(("assign", "operator[] =", n.get("l"), f))
                    if n.get("k") == "MCall" and this_member(n.get("obj"), (m,)):
                        if n.get("n") == "insert_or_assign":
                            writes.append(("assign", "insert_or_assign", n.get("l"), f))
                        elif n.get("n") in ("emplace", "insert", "try_emplace", "emplace_hint"):
                            writes.append(("keep", n["n"], n.get("l"), f))
                else:
                    if n.get("k") == "MCall" and this_member(n.get("obj"), (m,)) and n.get("n") in ("resize", "assign"):
                        writes.append(("assign", n["n"], n.get("l"), f))
                    if (n.get("k") == "Assign" or (n.get("k") == "OpCall" and n.get("op") == "=")) and this_member(n["lhs"] if n.get("k") == "Assign" else n["a"][0], (m,)):
                        writes.append(("assign", "operator=", n.get("l"), f))
                    if n.get("k") == "Call":
                        for i, a in enumerate(n.get("a", [])):
                            if this_member(a, (m,)) and i < len(n.get("pt", [])) and (facts.types[n["pt"][i]] if isinstance(n["pt"][i], int) else "").endswith("&") and "const" not in (facts.types[n["pt"][i]] if isinstance(n["pt"][i], int) else "const"):
                                writes.append(("assign", "output argument of %s" % n.get("callee"), n.get("l"), f))
        keep = [w for w in writes if w[0] == "keep"]
        overwritten = bool(writes) and not keep
        ok = bool(resets) or overwritten
        loc = keep[0] if keep else (writes[0] if writes else None)
        if not ok and (unmodelled or not writes):
            ck.incomplete(R, "CheckpointControl/%s: neither a reset nor an overwriting store was recognised, but %s" % (
                m, ("clear_input() applies %s to it" % ", ".join(unmodelled)) if unmodelled else "no store of the load path was recognised either"))
            continue
        ck.ob(R, "CheckpointControl/%s" % m, ok,
              ("clear_input() resets it (%s)" % resets[0]) + ("; every load overwrites it (%s)" % ", ".join(sorted(set(w[1] for w in writes))) if overwritten else "") if resets else
              ("every load overwrites it unconditionally (%s)" % ", ".join(sorted(set(w[1] for w in writes)))) if overwritten else
              "%s is filled by the load path with %s, which keeps an existing entry, and clear_input() does not reset it: after load(A), clear_input(), load(B) an identifier "
              "present in both checkpoints keeps the offset it had in A, and restore_object() hands another object's bytes to it" % (m, ", ".join(sorted(set(w[1] for w in keep))) or "no overwriting store"),
              (loc[3].file if loc else clear[0].file), (loc[2] if loc else clear[0].line),
              sample={"member": m, "resets": resets, "writes": [w[:2] for w in writes]})


def check_meta_checkpoints(ck, facts):
    """[u64 length of first][first][rest] recursion of the meta containers (E4 + E12)"""
    R = "E12.meta-checkpoint"
    by_cls = {}
    for f in facts.functions:
        if f.tk == "pattern" or f.name not in ("set_checkpoint_data", "restore_from_checkpoint_data", "get_checkpoint_size"):
            continue
        if not re.match(r"^FEAT::LAFEM::(Tuple|Power|SaddlePoint)", f.cls):
            continue
        by_cls.setdefault(f.cls, {})[f.name] = f
    seen_defs = set()
    for cls in sorted(by_cls):
        fs = by_cls[cls]
        if len(fs) != 3:
            ck.incomplete(R, "%s: checkpoint interface incomplete in the driver (%s)" % (short_cls(cls), sorted(fs)))
            continue
        w, r, g = fs["set_checkpoint_data"], fs["restore_from_checkpoint_data"], fs["get_checkpoint_size"]
        # one analysis per source definition (all instantiations of one definition have the same body shape)
        if (w.file, w.line) in seen_defs:
            continue
        seen_defs.add((w.file, w.line))
        w, r, g = stream_norm(facts, w), stream_norm(facts, r), stream_norm(facts, g)
        general = any(x.get("k") == "MCall" and x.get("n") == "insert" for x in walk(w.body))
        sc = strip_targs(short_cls(cls)) + ("<First,Rest...>" if general else "<Last>")
        try:
            W = StreamFn(w)
            W.exec_block(stmts_of(w.body))
            items = record_items(W.events)
            Rd = StreamFn(r)
            Rd.exec_block(stmts_of(r.body))
            G = StreamFn(g)
            G.exec_block(stmts_of(g.body))
        except Unknown as e:
            ck.incomplete(R, "%s: %s" % (sc, e))
            continue
        prods = [it for it in items if it.get("producer")]
        cons = [e for e in Rd.events if e["kind"] == "consume"]
        ret = [e for e in W.events if e["kind"] == "ret"]
        gret = [e for e in G.events if e["kind"] == "ret"]
        if not items:
            # terminal specialisation: pure forwarding to the single block (MAP scheme)
            def fwd(f, name):
                cs = [c for c in f.calls() if c.get("k") == "MCall" and c.get("n") == name]
                return [LayoutFn(f, "w").canon(c.get("obj")) for c in cs]
            a, b, c_ = fwd(w, "set_checkpoint_data"), fwd(r, "restore_from_checkpoint_data"), fwd(g, "get_checkpoint_size")
            if not (len(a) == 1 and len(b) == 1 and len(c_) == 1):
                ck.incomplete(R, "%s: forwarding of the one-block specialisation not recognised (%s / %s / %s)" % (sc, a, b, c_))
            else:
                ck.ob(R, "%s/forward" % sc, a == b == c_, "set/restore/size forward to %s / %s / %s" % (a, b, c_), w.file, w.line, trivial=True)
            continue
        # every sub-object's data is preceded by its length word, except the last one
        bind = {}
        reads = [e for e in Rd.events if e["kind"] == "read"]
        slices = [e for e in Rd.events if e["kind"] == "slice"]
        narrow = [e for e in Rd.events if e["kind"] == "narrow"]
        total = sum((it["n"] for it in items), sp.Integer(0))
        pos = sp.Integer(0)
        for it in items:
            it["pos"] = pos
            pos += it["n"]
        ok_order = [p["producer"] for p in prods] == [c["consumer"] for c in cons]
        ck.ob("E4.block-order", "%s/checkpoint" % sc, ok_order, "blocks packed in the order %s and restored in the order %s" % ([p["producer"] for p in prods], [c["consumer"] for c in cons]), r.file, r.line)
        for k, e in enumerate(reads):
            it = None
            for x in items:
                if seq(x["pos"] - sp.sympify(e["off"]).subs(bind)):
                    it = x
            nxt = [x for x in items if it is not None and seq(x["pos"] - it["pos"] - it["n"])]
            ok = it is not None and seq(it["n"] - e["n"]) and it.get("value") is not None and nxt and nxt[0].get("producer") and seq(it["value"] - nxt[0]["n"])
            if ok:
                bind[symbol(e["var"])] = it["value"]
            ck.ob(R, "%s/length-word%d" % (sc, k), bool(ok), "restore reads %s bytes at offset %s as the length of the next block; set_checkpoint_data has there %s" % (
                sp.sstr(e["n"]), sp.sstr(sp.sympify(e["off"]).subs(bind)), ("a %s-byte word patched with %s" % (sp.sstr(it["n"]), sp.sstr(it.get("value")))) if it else "no field boundary"), r.file, e["line"])
        for k, c in enumerate(cons):
            p = prods[k] if k < len(prods) else None
            if c["source"].startswith("SLICE"):
                sl = [e for e in slices if e["consumer"] == c["source"]]
                a = sp.expand(sl[0]["from"].subs(bind)) if sl else None
                b = sp.expand(sl[0]["to"].subs(bind)) if sl else None
                ok = p is not None and sl and seq(a - p["pos"]) and seq(b - p["pos"] - p["n"]) and p["producer"] == c["consumer"]
                ck.ob(R, "%s/block%d" % (sc, k), bool(ok), "%s restores from bytes [%s, %s); %s wrote [%s, %s)" % (
                    c["consumer"], sp.sstr(a), sp.sstr(b), p["producer"] if p else "?", sp.sstr(p["pos"]) if p else "?", sp.sstr(p["pos"] + p["n"]) if p else "?"), r.file, c["line"])
            else:
                a = sp.expand(sp.sympify(c["from"]).subs(bind))
                ok = p is not None and seq(a - p["pos"]) and p["producer"] == c["consumer"] and k == len(cons) - 1 and seq(p["pos"] + p["n"] - total)
                ck.ob(R, "%s/block%d" % (sc, k), bool(ok), "%s restores from the rest of the stream starting at %s; %s wrote from %s to the end" % (
                    c["consumer"], sp.sstr(a), p["producer"] if p else "?", sp.sstr(p["pos"]) if p else "?"), r.file, c["line"])
        if ret:
            ck.ob(R, "%s/returned-length" % sc, seq(ret[-1]["value"] - total), "set_checkpoint_data returns %s and appends %s" % (sp.sstr(sp.expand(ret[-1]["value"])), sp.sstr(total)), w.file, ret[-1]["line"])
        if gret:
            est = sp.expand(gret[-1]["value"])
            tot_est = total
            for p in prods:
                tot_est = tot_est.subs({p["n"]: symbol("est{%s}" % p["producer"])})
            D = sp.simplify(est - tot_est)
            ok = D.is_number and D.subs({s_: 8 for s_ in D.free_symbols}) >= 0 if D.free_symbols else (D.is_number and D >= 0)
            if D.free_symbols and all(str(s_).startswith("sz[") for s_ in D.free_symbols):
                ok = all(c_ >= 0 for c_ in sp.Poly(D, *sorted(D.free_symbols, key=str)).coeffs())
            ck.ob(R, "%s/size-estimate" % sc, bool(ok), "get_checkpoint_size = %s covers length words + block estimates (%s); difference %s" % (sp.sstr(est), sp.sstr(tot_est), sp.sstr(D)), g.file, g.line)
        if reads:
            key = "%s/restore_from_checkpoint_data/%s" % (sc, narrow[0]["to"] if narrow else "offset-width")
            if narrow:
                e = narrow[0]
                ck.ob("E12.length-width", key, False,
                      "the %d-byte length word read from the stream is narrowed by '%s' to %s (%d bytes, signed) before it is used as an offset: a first block of 2^31 bytes or more is sliced at a negative offset" % (
                          e["from_width"], e["expr"], e["to"], e["width"]), r.file, e["line"])
            else:
                ck.ob("E12.length-width", key, True, "the length word is used in the offset arithmetic at its full width", r.file, reads[0]["line"])



# -------------------------------------------------------------------------------------------------
# clause 4c: combined files (DistFileIO::write_combined / read_combined) - sequential stream layout
# -------------------------------------------------------------------------------------------------

FILE_XFER = {"MPI_File_write_shared": ("w", "shared"), "MPI_File_write_ordered": ("w", "ordered"), "MPI_File_write_all": ("w", "all"), "MPI_File_write": ("w", "own"),
             "MPI_File_read_shared": ("r", "shared"), "MPI_File_read_ordered": ("r", "ordered"), "MPI_File_read_all": ("r", "all"), "MPI_File_read": ("r", "own")}
FILE_HARMLESS = ("is_open", "good", "close", "open", "fail", "bad", "eof", "flush", "rdbuf", "imbue", "exceptions", "clear")


class FileSeq(LayoutFn):
    """Sequential file layout of one routine: the ordered transfers (header / parameter vectors / words) with their byte counts and guards.
    The file position only advances by the transfers; any other use of the file object (seek, helper, loop) is analysis-incomplete."""

    def __init__(self, fn, side, hsub=None, peer=None):
        LayoutFn.__init__(self, fn, side, hsub)
        self.cursors = set()
        self.events = []
        self.sizes = {}        # canonical vector -> canonical size after a resize in this routine
        self.guards = []
        self.peer = peer or []     # reader: the writer's events (words read from the file are bound to what the writer put there)
        self.files = set()
        # typed header objects: std::array<T, N> / T[N] locals
        self.arrays = {}
        for d, v in self.decl.items():
            t = re.sub(r"^const\s+", "", fn.type(v.get("t")) or "")
            m = re.match(r"^std::array<(.+),\s*(\d+)(?:U|UL|ul|u)?>$", t) or re.match(r"^(.+?)\s*\[(\d+)\]$", t)
            if m:
                self.arrays[d] = (m.group(1).strip(), int(m.group(2)))
        # header structs: locals of class type whose address is handed to a transfer
        self.records = {}
        for x in fn.nodes():
            args = None
            if x.get("k") == "MCall" and x.get("n") in ("write", "read") and len(x.get("a", [])) == 2:
                args = x["a"][:1]
            elif x.get("k") == "Call" and x.get("callee") in FILE_XFER and len(x.get("a", [])) >= 3:
                args = x["a"][1:2]
            for a_ in args or []:
                p_ = strip_cast(a_)
                if p_ is not None and p_.get("k") == "Un" and p_.get("op") == "&" and strip_cast(p_["e"]).get("k") == "Ref" and strip_cast(p_["e"]).get("dk") == "local":
                    d_ = strip_cast(p_["e"])["d"]
                    t_ = re.sub(r"^const\s+", "", fn.type(self.decl.get(d_, {}).get("t")) or "")
                    if d_ in self.decl and t_ not in INT_WIDTH and not re.match(r"^(unsigned |signed )?(char|short|int|long|long long)$|^std::|^(float|double|bool)$", t_) and d_ not in self.arrays:
                        self.records[d_] = t_
        for d, v in self.decl.items():
            t = fn.type(v.get("t")) or ""
            if re.search(r"\b(std::)?(basic_)?[io]?fstream\b|^std::(ofstream|ifstream|fstream)$|^MPI_File$|ompi_file_t", t):
                self.files.add(d)

    def is_file(self, n):
        n = strip_cast(n)
        return n is not None and n.get("k") == "Ref" and n.get("d") in self.files

    def mentions_file(self, n):
        return any(x.get("k") == "Ref" and x.get("d") in self.files for x in walk(n))

    def canon(self, n, lv=None):
        n0 = strip_cast(n)
        # integral constants of the translation unit and sizeof are numbers here (byte counts are compared as values)
        if n0 is not None and n0.get("k") == "Ref" and n0.get("dk") in ("global", "smember") and n0.get("v") is not None and re.match(r"^-?\d+$", str(n0["v"])) \
                and re.search(r"(size_t|int|long|short|uint\d+_t|streamsize|Index)\b", self.fn.ntype(n0) or ""):
            return str(int(n0["v"]))
        if n0 is not None and n0.get("k") == "SizeOf" and n0.get("v") and re.match(r"^\d+$", str(n0["v"])):
            return str(int(n0["v"]))
        if n0 is not None and n0.get("k") == "MCall" and n0.get("n") == "size" and not n0.get("a") and n0.get("obj") is not None:
            o = strip_cast(n0["obj"])
            if o.get("k") == "Ref" and o.get("d") in self.arrays:
                return str(self.arrays[o["d"]][1])
            if o.get("k") == "Ref" and o.get("d") in self.roots and o.get("dk") == "local" and self.assigned.get(o["d"], 0) == 0:
                # size of the local header vector: the extent it is constructed with
                ini = self.decl.get(o["d"], {}).get("init")
                if ini is not None and ini.get("k") in ("Construct", "TempObj") and ini.get("a") and not any(
                        x.get("k") == "MCall" and x.get("n") in ("resize", "push_back", "insert", "assign", "clear") and strip_cast(x.get("obj")).get("d") == o["d"] for x in self.fn.nodes() if x.get("obj") is not None):
                    return LayoutFn.canon(self, ini["a"][0], lv)
            if o.get("k") == "Ref" and o.get("dk") == "param" and is_char_vector(self.ptype.get(o.get("d"))):
                key = LayoutFn.canon(self, o, lv)
                if key in self.sizes:
                    return self.sizes[key]
                if self.side == "r":
                    # the size of a parameter vector that was not resized is whatever the caller passed: not a quantity of the file
                    return "entry{#%s}" % key
        return LayoutFn.canon(self, n, lv)

    def count_text(self, n):
        """canonical byte count (the size of a vector that was resized in this routine is the size it was given)"""
        return self.canon(n)

    def sym(self, n, st, lv=None):
        n0 = strip_cast(n)
        if n0 is not None and n0.get("k") in ("Ref", "SizeOf"):
            t = self.canon(n0, lv)
            if re.match(r"^-?\d+$", t):
                return sp.Integer(int(t))
        return LayoutFn.sym(self, n, st, lv)

    def what_of(self, ptr):
        """the object a transfer moves: ('header', root) / ('param', index) / ('word', decl) / None"""
        p = through_consts(self.fn, ptr)
        if p is None:
            return None
        if p.get("k") == "MCall" and p.get("n") == "data" and not p.get("a"):
            o = strip_cast(p.get("obj"))
            if o.get("k") == "Ref" and o.get("dk") == "param":
                return ("param", self.params.get(o["d"], -1), o.get("n"))
            if o.get("k") == "Ref" and (o.get("d") in self.roots or o.get("d") in self.arrays):
                return ("header", o["d"], o.get("n"))
        if p.get("k") == "Ref" and p.get("d") in self.arrays:
            return ("header", p["d"], p.get("n"))
        if p.get("k") == "Un" and p.get("op") == "&":
            a_ = self.access(p)
            if a_ is not None and is_zero(a_["idx"]) and strip_cast(a_["node"]).get("k") in ("OpCall", "Index", "MCall"):
                b_ = a_["node"]
                b0 = strip_cast(b_["a"][0] if b_.get("k") == "OpCall" else b_.get("b") if b_.get("k") == "Index" else b_.get("obj"))
                if b0 is not None and b0.get("k") == "Ref" and b0.get("d") in self.arrays:
                    return ("header", b0["d"], b0.get("n"))
        if p.get("k") == "Un" and p.get("op") == "&" and strip_cast(p["e"]).get("k") == "Ref" and strip_cast(p["e"]).get("dk") == "local":
            if strip_cast(p["e"])["d"] in self.records:
                return ("header", strip_cast(p["e"])["d"], strip_cast(p["e"]).get("n"))
            return ("word", strip_cast(p["e"])["d"], strip_cast(p["e"]).get("n"))
        return None

    def own_guard(self, cond_text, parts, count):
        """is the guard the non-emptiness of the transferred byte count itself?  (a transfer of zero bytes is no transfer)"""
        return parts is not None and parts == count

    def nonempty_subject(self, c, pol):
        """(c == pol) asserts `count > 0` -> canonical count, else None"""
        c = through_consts(self.fn, c)
        if c is None:
            return None
        if c.get("k") == "Un" and c.get("op") == "!":
            return self.nonempty_subject(c["e"], not pol)
        if c.get("k") == "MCall" and c.get("n") == "empty" and not c.get("a"):
            return self.count_text({"k": "MCall", "n": "size", "obj": c.get("obj"), "a": [], "callee": "size"}) if not pol else None
        if c.get("k") == "Bin" and c.get("op") in (">", "!=", "<", "=="):
            l, r = c["lhs"], c["rhs"]
            if c["op"] == "<":
                l, r = r, l
            if is_zero(r) and ((c["op"] in (">", "<", "!=") and pol) or (c["op"] == "==" and not pol)):
                return self.count_text(l)
            if is_zero(l) and c["op"] in ("!=",) and pol:
                return self.count_text(r)
        return None

    def walk_stmts(self, stmts):
        for s_ in stmts:
            k = s_.get("k")
            if k == "Block":
                self.walk_stmts(s_.get("s", []))
            elif k == "If":
                if not (self.mentions_file(s_.get("then")) or (s_.get("else") is not None and self.mentions_file(s_["else"])) or
                        any(x.get("k") == "MCall" and x.get("n") == "resize" for x in walk(s_))):
                    continue
                def conjuncts(c, want):
                    """(c == want) as a list of (text, polarity, non-emptiness subject): `a && b` true and `a || b` false split into their parts"""
                    c0 = through_consts(self.fn, c)
                    if c0 is not None and c0.get("k") == "Un" and c0.get("op") == "!":
                        return conjuncts(c0["e"], not want)
                    if c0 is not None and c0.get("k") == "Bin" and ((c0.get("op") == "&&" and want) or (c0.get("op") == "||" and not want)):
                        return conjuncts(c0["lhs"], want) + conjuncts(c0["rhs"], want)
                    ne_ = self.nonempty_subject(c, want)
                    if ne_ is not None:
                        return [("nonempty{%s}" % ne_, True, ne_)]      # `!v.empty()`, `n > 0`, `n != 0` are one condition
                    t_, p_ = self.norm_cond(c0 if c0 is not None else c)
                    return [(t_, p_ == want, None)]
                for br, bp in ((s_.get("then"), True), (s_.get("else"), False)):
                    if br is None:
                        continue
                    gs = conjuncts(s_["c"], bp)
                    self.guards.extend(gs)
                    self.walk_stmts(stmts_of(br))
                    del self.guards[len(self.guards) - len(gs):]
            elif k in ("For", "While", "Do", "ForRange", "Switch", "Try"):
                if self.mentions_file(s_):
                    raise Unknown("%s statement at line %s uses the file" % (k, s_.get("l")))
            else:
                self.stmt(s_)

    def stmt(self, s_):
        for x in walk(s_):
            kind = None
            if x.get("k") == "MCall" and self.is_file(x.get("obj")):
                if x.get("n") in ("write", "read") and len(x.get("a", [])) == 2:
                    kind = ("w" if x["n"] == "write" else "r", "stream", x["a"][0], x["a"][1])
                elif x.get("n") == "ignore" and len(x.get("a", [])) >= 1 and self.side == "r":
                    kind = ("r", "stream", None, x["a"][0])      # bytes skipped by the reader
                elif x.get("n") in FILE_HARMLESS:
                    continue
                else:
                    raise Unknown("the file position is changed / used by '%s', which the analysis does not model" % render(x)[:70])
            elif x.get("k") == "Call" and x.get("callee") in FILE_XFER and len(x.get("a", [])) >= 3 and self.is_file(x["a"][0]):
                kind = FILE_XFER[x["callee"]] + (x["a"][1], x["a"][2])
            elif x.get("k") == "Call" and any(self.is_file(a_) or (strip_cast(a_).get("k") == "Un" and self.is_file(strip_cast(a_).get("e"))) for a_ in x.get("a", [])):
                cal = x.get("callee") or ""
                if re.match(r"^MPI_File_(open|close|set_size|sync|get_size|set_errhandler)$", cal) or strip_targs(cal) == "FEAT::assertion":
                    continue
                raise Unknown("the file is handed to '%s', which the analysis does not model" % render(x)[:70])
            elif x.get("k") == "MCall" and x.get("n") == "resize" and x.get("a"):
                o = strip_cast(x.get("obj")) if x.get("obj") is not None else None
                if o is not None and o.get("k") == "Ref" and o.get("dk") == "param":
                    self.sizes[self.canon(o)] = self.canon(x["a"][0])
                continue
            if kind is None:
                continue
            direction, mode, ptr, cnt = kind
            what = self.what_of(ptr) if ptr is not None else None
            if what is None:
                # bytes of some other object (padding, a scratch area that is skipped): they occupy the file all the same
                what = ("other", None, render(strip_cast(ptr))[:30] if ptr is not None else "skipped")
            count = self.count_text(cnt)
            guards = [(t, p_) for t, p_, ne in self.guards if ne is None or ne != count]
            ev = {"dir": direction, "mode": mode, "what": what, "count": count, "guards": guards, "line": x.get("l"), "sym": self.sym_count(cnt)}
            if what[0] == "word":
                if direction == "w":
                    ev["value"] = self.canon({"k": "Ref", "dk": "local", "d": what[1], "n": what[2]})
                else:
                    j = len(self.events)
                    pe = self.peer[j] if j < len(self.peer) else None
                    if pe is not None and pe["what"][0] == "word" and pe.get("value") is not None:
                        self.bound[what[1]] = pe["value"]
                        self.__dict__.pop("_gv_cache", None)
            self.events.append(ev)

    def sym_count(self, cnt):
        try:
            t = self.count_text(cnt)
            if re.match(r"^\d+$", t):
                return sp.Integer(int(t))
            return symbol(t)
        except Unknown:
            return None


def xfer_text(e):
    if e is None:
        return "<nothing>"
    g = " if " + " and ".join("%s%s" % ("" if p_ else "not ", t) for t, p_ in e["guards"]) if e["guards"] else ""
    return "%s %s bytes of %s '%s'%s (line %s)" % ({"w": "writes", "r": "reads"}[e["dir"]] + ("" if e["mode"] == "stream" else " [" + e["mode"] + "]"),
                                                 e["count"], e["what"][0], e["what"][2], g, e["line"])


def check_combined_files(ck, facts, variant):
    """DistFileIO::write_combined / read_combined(std::vector<char>&, std::vector<char>&, ...): the reader consumes exactly the sequence of
    blocks the writer emits - same order, same byte counts (header words the reader takes its counts from bound to what the writer stored
    there), same access mode (shared / ordered) and guards, k-th payload parameter to k-th payload parameter - and the header words the
    reader requires are the ones written; serial variant: the file-size word covers the bytes written"""
    R = "E12.combined-file"
    pick = {}
    for f in facts.functions:
        if f.tk == "pattern" or f.name not in ("write_combined", "read_combined") or len(f.params) < 3:
            continue
        if is_char_vector(f.type(f.params[0]["t"])) and is_char_vector(f.type(f.params[1]["t"])):
            pick[f.name] = f
    w, r = pick.get("write_combined"), pick.get("read_combined")
    if w is None or r is None:
        ck.incomplete(R, "%s: DistFileIO::write_combined / read_combined(std::vector<char>&, ...) not found" % variant)
        return
    want = stream_inline_for(w)
    w = norm_c05.normalized(facts, w, inline=want, algorithms=False, loops=False)
    r = norm_c05.normalized(facts, r, inline=stream_inline_for(r), algorithms=False, loops=False)
    try:
        W = FileSeq(w, "w")
        W.walk_stmts(stmts_of(w.body))
        hdr = {}
        for n in w.nodes():
            if n.get("k") == "Assign" and n.get("op") == "=":
                a = W.access(n["lhs"], resolve=False)
                if a is not None and strip_cast(a["idx"]).get("k") == "Int":
                    k_ = int(strip_cast(a["idx"])["v"])
                    if k_ in hdr:
                        raise Unknown("header word %d is stored twice" % k_)
                    hdr[k_] = {"canon": W.canon(n["rhs"]), "node": strip_cast(n["rhs"]), "line": n.get("l"), "unit": a["unit"]}
        # the reader's own parameters: the same names as the writer's where the parameter has the same name (communicator, root rank);
        # its payload vectors are distinct quantities ($r0, $r1) - what they hold is what the routine reads into them
        wnames = {p_["n"]: i_ for i_, p_ in enumerate(w.params) if p_["n"]}
        rpsub = {}
        for i_, p_ in enumerate(r.params):
            if is_char_vector(r.type(p_["t"])) or not p_["n"] or p_["n"] not in wnames:
                rpsub[i_] = "$r%d" % i_
            else:
                rpsub[i_] = "$p%d" % wnames[p_["n"]]
        Rd = FileSeq(r, "r", {k_: h["canon"] for k_, h in hdr.items()}, peer=W.events)
        Rd.psub = rpsub
        Rd.walk_stmts(stmts_of(r.body))
    except Unknown as e:
        ck.incomplete(R, "%s: %s" % (variant, e))
        return
    we, re_ = W.events, Rd.events
    if not we or not re_:
        ck.incomplete(R, "%s: no file transfers recognised in %s" % (variant, "write_combined" if not we else "read_combined"))
        return
    for i in range(max(len(we), len(re_))):
        a = we[i] if i < len(we) else None
        b = re_[i] if i < len(re_) else None
        base = a or b
        key = "%s/block%d:%s" % (variant, i, base["what"][0] if base["what"][0] != "param" else "payload%d" % base["what"][1])
        if a is None or b is None:
            ck.ob(R, key, False, "the writer emits %s; the reader consumes %s at this position of the file" % (xfer_text(a), xfer_text(b)) +
                  ("" if b is not None else ": these bytes stay in front of whatever the reader takes next"), (w if a else r).file, base["line"])
            break
        diffs = []
        if a["what"][0] != b["what"][0] or (a["what"][0] == "param" and a["what"][1] != b["what"][1]):
            diffs.append("object: writer %s '%s' / reader %s '%s'" % (a["what"][0], a["what"][2], b["what"][0], b["what"][2]))
        if a["count"] != b["count"]:
            diffs.append("bytes: writer %s / reader %s" % (a["count"], b["count"]))
        if a["mode"] != b["mode"]:
            diffs.append("access: writer %s / reader %s" % (a["mode"], b["mode"]))
        for e_, fn_, L_ in ((a, w, W), (b, r, Rd)):
            if e_["what"][0] == "word" and re.match(r"^\d+$", e_["count"]):
                wd = INT_WIDTH.get(re.sub(r"^const\s+", "", fn_.type(L_.decl.get(e_["what"][1], {}).get("t")) or ""))
                if wd is not None and wd != int(e_["count"]):
                    diffs.append("%s bytes are moved through the %d-byte variable '%s'" % (e_["count"], wd, e_["what"][2]))
        if sorted(a["guards"]) != sorted(b["guards"]):
            diffs.append("condition: writer [%s] / reader [%s]" % ("; ".join("%s%s" % ("" if p_ else "not ", t) for t, p_ in a["guards"]), "; ".join("%s%s" % ("" if p_ else "not ", t) for t, p_ in b["guards"])))
        opaque = [t_ for t_ in (a["count"], b["count"]) if re.search(r"local\{|var\{|H\d+\?|\.[A-Za-z_]\w*\b(?!\()", re.sub(r"\$[pr]\d+\.\w+\(\)", "", t_)) and not re.match(r"^#", t_)]
        if diffs and opaque and a["count"] != b["count"]:
            ck.incomplete(R, "%s: the byte count '%s' is taken from an object the analysis has no value for (header kept in an unmodelled form?)  [%s | %s]" % (key, opaque[0], xfer_text(a), xfer_text(b)))
            break
        ck.ob(R, key, not diffs, ("; ".join(diffs) + "  [%s | %s]" % (xfer_text(a), xfer_text(b)) + " (first divergence; later blocks are not compared)") if diffs else xfer_text(a) + " = " + xfer_text(b),
              r.file, b["line"], sample={"writer": xfer_text(a), "reader": xfer_text(b)})
        if diffs:
            break
    # the header block that is written covers every header word that is stored
    plain = [k_ for k_ in hdr if k_ < 100]
    hev = [e for e in we if e["what"][0] == "header"]
    if plain and len(hev) == 1 and re.match(r"^\d+$", hev[0]["count"]):
        wd = INT_WIDTH.get(hdr[max(plain)]["unit"])
        if wd is not None:
            need = (max(plain) + 1) * wd
            ck.ob(R, "%s/header-extent" % variant, int(hev[0]["count"]) >= need, "header block of %s bytes; header words 0..%d of %d bytes each are stored (%d bytes)" % (
                hev[0]["count"], max(plain), wd, need), w.file, hev[0]["line"], trivial=True)
    # header words the reader requires / uses
    bel = header_beliefs(Rd)
    for k_ in sorted(bel):
        key = "%s/header-word%d" % (variant, k_)
        wh = hdr.get(k_)
        if wh is None:
            ck.ob(R, key, False, "read_combined uses header word %d, which write_combined never stores" % k_, r.file, bel[k_][0][2])
            continue
        bad = ["reader requires it to equal %s, writer stores %s" % (val, wh["canon"]) for kind, val, l in bel[k_] if kind == "equals" and val != wh["canon"]]
        ck.ob(R, key, not bad, "; ".join(bad) or "writer stores %s" % wh["canon"], r.file, bel[k_][0][2], trivial=not any(kind == "equals" for kind, _, _ in bel[k_]))
    # the file-size word covers what is written (evaluable for the serial writer)
    if 1 in hdr:
        try:
            tot = W.sym(hdr[1]["node"], State())
            syms = [e["sym"] for e in we]
            if all(x is not None for x in syms) and all(e["mode"] == "stream" for e in we):
                written = sum(syms, sp.Integer(0))
                if not seq(tot - written) and any(e["guards"] for e in we):
                    ck.incomplete(R, "%s/file-size-word: header word 1 = %s, bytes written = %s with some blocks written under conditions; not compared" % (variant, sp.sstr(sp.expand(tot)), sp.sstr(written)))
                else:
                    ck.ob(R, "%s/file-size-word" % variant, seq(tot - written), "header word 1 = %s; bytes written = %s" % (sp.sstr(sp.expand(tot)), sp.sstr(written)), w.file, hdr[1]["line"])
        except Unknown:
            pass

# -------------------------------------------------------------------------------------------------
# clause 5: Pack — case tables, conversion loops, argument roles
# -------------------------------------------------------------------------------------------------

def eval_int(n, env):
    n = strip_cast(n)
    k = n.get("k")
    if k == "Int":
        return int(n["v"])
    if k in ("Construct", "TempObj") and len(n.get("a", [])) == 1:
        return eval_int(n["a"][0], env)
    if k == "Ref":
        if n.get("d") in env:
            return env[n["d"]]
        if n.get("v") is not None:
            return int(n["v"])
        raise Unknown("value of '%s'" % n.get("n"))
    if k == "Bin":
        a, b = eval_int(n["lhs"], env), eval_int(n["rhs"], env)
        op = n["op"]
        return {"<<": lambda: a << b, ">>": lambda: a >> b, "&": lambda: a & b, "|": lambda: a | b, "+": lambda: a + b, "-": lambda: a - b, "*": lambda: a * b}[op]()
    raise Unknown("expression '%s'" % render(n))


ROLE_CLASS = {"buf": "buffer", "src": "array", "dst": "array", "dest": "array", "t": "array", "count": "count", "buf_size": "buffer-bytes",
              "pack_type": "type", "raw_type": "type", "type": "type", "swap_bytes": "swap", "tolerance": "tolerance"}


def check_pack(ck, facts):
    fns = [f for f in facts.functions if f.tk != "pattern" and f.full.startswith("FEAT::Pack::")]
    byname = {}
    for f in fns:
        byname.setdefault(strip_targs(f.full), []).append(f)
    es = (byname.get("FEAT::Pack::element_size") or [None])[0]
    if es is None:
        ck.incomplete("E12.pack-cases", "Pack::element_size not found")
        return
    ret = [n for n in es.nodes() if n.get("k") == "Return"]

    def element_size(v):
        return eval_int(ret[0]["e"], {es.params[0]["d"]: v})

    def xsize(call):
        """sizeof of the buffer element type X_ of an xencode<X_,T_>/xdecode<X_,T_> call, read from the callee's return statement"""
        for g in fns:
            if g.full == call.get("cfull"):
                for n in g.nodes():
                    if n.get("k") == "Return" and n.get("e") is not None:
                        so = [x for x in walk(through_consts(g, n["e"])) if x.get("k") == "SizeOf"]
                        if len(so) == 1:
                            return int(so[0]["v"]), so[0]["type"]
        return None, None
    # ---- case tables
    helpers = {}
    for f in fns:
        m = re.match(r"^(FEAT::Pack::Intern::TypeHelper<.*>)::(encode|decode|deduct)<", f.full)
        if m:
            helpers.setdefault(m.group(1), {}).setdefault(m.group(2), f)
    for h in sorted(helpers):
        hs = h.replace("FEAT::Pack::Intern::", "").replace("FEAT::Type::", "")
        d = helpers[h]
        tables = {}
        for nm in ("encode", "decode"):
            f = d.get(nm)
            if f is None:
                continue
            ptp = [p_["d"] for p_ in f.params if "Pack::Type" in (f.type(p_["t"]) or "")]
            vg = value_groups(f, lambda x: x is not None and x.get("k") == "Ref" and x.get("dk") == "param" and x.get("d") in ptp) if len(ptp) == 1 else None
            if vg is None:
                ck.incomplete("E12.pack-cases", "%s::%s: no single dispatch (switch / if chain) over the pack type parameter" % (hs, nm))
                continue
            tab = {}
            for ls, st in vg[0]:
                if "default" in ls:
                    continue
                calls = [c for s_ in st for c in walk(s_) if c.get("k") == "Call" and re.search(r"::x(en|de)code$", c.get("callee", ""))]
                for l in ls:
                    tab[l] = calls[0] if len(calls) == 1 else None
            tables[nm] = (f, vg[1], tab)
        if len(tables) == 2:
            (fe, vale, te), (fd, vald, td) = tables["encode"], tables["decode"]
            for lab in sorted(set(te) | set(td)):
                key = "%s/%s" % (hs, lab.rsplit("::", 1)[-1])
                ce, cd = te.get(lab), td.get(lab)
                if (lab in te and ce is None) or (lab in td and cd is None):
                    ck.incomplete("E12.pack-cases", "%s: the case does not consist of a single xencode/xdecode call" % key)
                    continue
                if ce is None or cd is None:
                    ck.ob("E12.pack-cases", key, False, "pack type handled by %s only: an array packed as this type cannot be %s" % ("encode" if ce is not None else "decode", "decoded" if ce is not None else "produced"), fe.file, fe.line)
                    continue
                val = vale.get(lab, vald.get(lab))
                if val is None:
                    ck.incomplete("E12.pack-cases", "%s: value of the enumerator not found" % key)
                    continue
                se, te_ = xsize(ce)
                sd, td_ = xsize(cd)
                try:
                    want = element_size(val)
                except Unknown as e:
                    ck.incomplete("E12.pack-cases", "Pack::element_size: %s" % e)
                    continue
                if se is None or sd is None:
                    ck.incomplete("E12.pack-cases", "%s: the byte count xencode / xdecode return is not count * sizeof(one type)" % key)
                    continue
                ok = se == sd == want and te_ == td_
                ck.ob("E12.pack-cases", key, ok, "encode converts to %s (%s bytes), decode reads %s (%s bytes), element_size(%s) = %s" % (te_, se, td_, sd, lab.rsplit("::", 1)[-1], want),
                      fd.file, cd.get("l"), sample={"type": lab, "encode": te_, "decode": td_, "element_size": want})
        f = d.get("deduct")
        if f is not None:
            vg = value_groups(f, lambda x: x is not None and x.get("k") == "SizeOf")
            for ls, st in (vg[0] if vg is not None else []):
                if "default" in ls:
                    continue
                for l in ls:
                    rets = [strip_cast(x["e"]) for s_ in st for x in walk(s_) if x.get("k") == "Return"]
                    if len(rets) != 1 or rets[0].get("v") is None or not re.match(r"^\d+$", l):
                        continue
                    ok = element_size(int(rets[0]["v"])) == int(l)
                    ck.ob("E12.pack-cases", "%s/deduct/%s" % (hs, l), ok, "sizeof(T) = %s -> %s with element_size %s" % (l, rets[0].get("qn"), element_size(int(rets[0]["v"]))), f.file, rets[0].get("l"))
    # ---- conversion loops (index loops, lock-step pointer loops, while loops: all brought to for(i = 0; i < N; ++i) first)
    done = set()
    for nm in ("FEAT::Pack::Intern::xencode", "FEAT::Pack::Intern::xdecode"):
        for f0 in byname.get(nm, []):
            f = norm_c05.normalized(facts, f0, inline=None, algorithms=True, loops=True)
            short = nm.rsplit("::", 1)[-1]
            view = None
            for n in f.nodes():
                if n.get("k") == "Decl":
                    for v in n["vars"]:
                        ini = v.get("init")
                        if ini is not None and ini.get("k") == "Cast" and strip_cast(ini).get("dk") == "param":
                            view = (v["d"], pointee(f.type(v["t"])), strip_cast(ini)["d"])
            if view is None:
                ck.incomplete("E2.pack-loops", "%s: typed view of the buffer not found" % f.full)
                continue
            arr = [p for p in f.params if pointee(f.type(p["t"])) is not None and p["d"] != view[2]]
            rets = [n for n in f.nodes() if n.get("k") == "Return"]
            cnt = None
            if len(rets) == 1 and rets[0].get("e") is not None:
                e = through_consts(f, rets[0]["e"])
                if e.get("k") == "Bin" and e.get("op") == "*":
                    sides = [through_consts(f, e["lhs"]), through_consts(f, e["rhs"])]
                    so = [x for x in sides if x.get("k") == "SizeOf"]
                    rf = [x for x in sides if x.get("k") == "Ref" and x.get("dk") == "param"]
                    if so and rf:
                        cnt = rf[0]["d"]
                        okr = so[0].get("type") == view[1]
                        if (short, "return", okr) not in done:
                            done.add((short, "return", okr))
                            ck.ob("E2.pack-loops", "%s/return" % short, okr, "returns count*sizeof(%s); buffer elements are %s" % (so[0].get("type"), view[1]), f.file, rets[0].get("l"))
            if cnt is None or not arr:
                if (short, "return", "inc") not in done:
                    done.add((short, "return", "inc"))
                    ck.incomplete("E2.pack-loops", "%s: the returned byte count is not recognised as <count parameter> * sizeof(<buffer element>) (%s)" % (
                        f.full, render(rets[0].get("e"))[:60] if len(rets) == 1 else "%d return statements" % len(rets)))
                continue
            loops = [n for n in walk(f.body) if n.get("k") in ("For", "While", "Do", "ForRange")]
            for bi, lp in enumerate(loops):
                L = LayoutFn(f, "w")
                ok, detail = False, "loop not recognised"
                try:
                    if lp.get("k") != "For":
                        raise Unknown("%s loop at line %s has no induction the analysis can bring to i = 0 .. N-1%s" % (
                            lp["k"], lp.get("l"), "".join("; " + x for x in getattr(f, "norm_log", [])[:1])))
                    lvd, bound = L.loop_header(lp)
                    b = stmts_of(lp["body"])
                    if len(b) == 1 and b[0].get("k") == "Assign" and b[0].get("op") == "=":
                        def as_index(n_):
                            """*p is p[0]"""
                            if n_.get("k") == "Un" and n_.get("op") == "*" and not n_.get("post") and strip_cast(n_["e"]).get("k") == "Ref":
                                return {"k": "Index", "b": n_["e"], "idx": {"k": "Int", "v": "0"}, "l": n_.get("l")}
                            return n_
                        l = as_index(strip_cast(b[0]["lhs"]))
                        reads = [as_index(x) for x in walk(b[0]["rhs"]) if x.get("k") == "Index" or (x.get("k") == "Un" and x.get("op") == "*" and not x.get("post"))]
                        if l.get("k") == "Index" and len(reads) == 1 and reads[0].get("k") == "Index":
                            r = reads[0]
                            dst_b, src_b = strip_cast(l["b"]), strip_cast(r["b"])
                            if dst_b.get("k") == "Ref" and src_b.get("k") == "Ref":
                                want = (view[0], arr[0]["d"]) if short == "xencode" else (arr[0]["d"], view[0])
                                ok = (through_consts(f, bound).get("d") == cnt and strip_cast(l["idx"]).get("d") == lvd and strip_cast(r["idx"]).get("d") == lvd
                                      and (dst_b.get("d"), src_b.get("d")) == want)
                                detail = "for i < %s: %s[%s] <- %s[%s]" % (render(bound), render(l["b"]), render(l["idx"]), render(r["b"]), render(r["idx"]))
                except Unknown as e:
                    detail = str(e)
                    if getattr(f, "norm_log", None) and "norm" not in detail:
                        detail += "".join("; " + x for x in f.norm_log[:1])
                key = "%s/loop%d" % (short, bi)
                if detail == "loop not recognised" or (not ok and not detail.startswith("for i <")):
                    if (key, "inc") not in done:
                        done.add((key, "inc"))
                        ck.incomplete("E2.pack-loops", "%s in %s: conversion loop not recognised (%s)" % (key, f.full, detail))
                    continue
                if (key, ok) not in done:
                    done.add((key, ok))
                    ck.ob("E2.pack-loops", key, ok, detail + ("" if ok else " (expected every i in [0,count) once, same i on both sides, buffer %s the typed array)" % ("<-" if short == "xencode" else "->")), f.file, lp.get("l"))
    # ---- argument roles along the dispatch chain
    seen = set()
    chain = {}
    for f in fns:
        base = strip_targs(f.full)
        if not re.search(r"::(encode|decode|encode_raw|decode_raw|estimate_size)$", base) and "TypeHelper" not in base:
            continue
        pname = {p["d"]: p["n"] for p in f.params}
        L = LayoutFn(f, "w")
        for c in f.calls():
            cb = strip_targs(c.get("callee", ""))
            if c.get("k") != "Call" or not cb.startswith("FEAT::Pack::") or cb.endswith("operator&") or cb.endswith("operator|") or "element_size" in cb:
                continue
            key = "%s->%s" % (base.replace("FEAT::Pack::", "").replace("Intern::", ""), cb.replace("FEAT::Pack::", "").replace("Intern::", ""))
            bad = []
            for i, a in enumerate(c.get("a", [])):
                a0 = strip_cast(a)
                src = None
                if a0.get("k") == "Ref" and a0.get("dk") == "param":
                    src = pname.get(a0["d"])
                elif a0.get("k") == "Ref" and a0.get("dk") == "local" and L.const_local(a0["d"]):
                    src = a0["n"] if a0["n"] in ROLE_CLASS else None
                    ini = strip_cast(L.decl[a0["d"]]["init"])
                    refs = [x for x in walk(ini) if x.get("k") == "Ref" and x.get("dk") == "param"]
                    if len(refs) == 1:
                        src = pname.get(refs[0]["d"])
                if src is None or i >= len(c.get("pn", [])):
                    continue
                ra, rb = ROLE_CLASS.get(src), ROLE_CLASS.get(c["pn"][i])
                if ra is None or rb is None:
                    continue
                if ra != rb:
                    bad.append("argument '%s' (%s) is passed as parameter '%s' (%s)" % (src, ra, c["pn"][i], rb))
            if (key, tuple(bad)) in seen:
                continue
            seen.add((key, tuple(bad)))
            ck.ob("E1.pack-roles", key, not bad, "; ".join(bad) or "every forwarded argument keeps its role (%s)" % ", ".join(c.get("pn", [])), f.file, c.get("l"))
        if re.search(r"^FEAT::Pack::(encode|decode)$", base):
            steps = {}

            def ifs(ss):
                for n in ss:
                    if n.get("k") == "Block":
                        ifs(n.get("s", []))
                    elif n.get("k") == "If":
                        callee = [strip_targs(c.get("callee", "")).rsplit("::", 1)[-1] for c in walk(n.get("then")) if c.get("k") == "Call" and strip_targs(c.get("callee", "")).startswith("FEAT::Pack::")]
                        callee = [re.sub(r"(en|de)code", "code", x) for x in callee if "code" in x]
                        if callee:
                            steps[L.canon(n["c"])] = tuple(callee)
                        if n.get("else") is not None:
                            ifs(stmts_of(n["else"]))
            ifs(stmts_of(f.body))
            chain.setdefault(base.rsplit("::", 1)[-1], steps)
    if "encode" in chain and "decode" in chain:
        ce_, cd_ = chain["encode"], chain["decode"]
        if not ce_ or set(ce_) != set(cd_):
            ck.incomplete("E1.pack-roles", "encode/decode/dispatch: the conditions under which encode and decode dispatch cannot be aligned (%s / %s)" % (sorted(ce_), sorted(cd_)))
        else:
            diff = [c for c in ce_ if ce_[c] != cd_[c]]
            ck.ob("E1.pack-roles", "encode/decode/dispatch", not diff, ("encode and decode dispatch %s on the same conditions" % sorted(set(ce_.values()))) if not diff else
                  "under '%s' encode calls %s but decode calls %s" % (diff[0], ce_[diff[0]], cd_[diff[0]]), featlib.repo_path("kernel/util/pack.hpp"), None)


# -------------------------------------------------------------------------------------------------
# clause 6: empty containers — direct slot accesses and nullable accessors in IO routines
# -------------------------------------------------------------------------------------------------

SLOT_VECTORS = ("_elements", "_indices")
ZERO_ACCESSORS = ("size", "used_elements")     # scalar accessors whose value is decided per class from the constructors


def this_member(n, names):
    n = strip_cast(n)
    return (n is not None and n.get("k") == "Member" and n.get("n") in names and (n.get("b") is None or strip_cast(n["b"]).get("k") == "This"))


def is_zero(n):
    n = strip_cast(n)
    while n is not None and n.get("k") in ("Construct", "TempObj") and len(n.get("a", [])) == 1:
        n = strip_cast(n["a"][0])
    return n is not None and n.get("k") == "Int" and int(n["v"]) == 0


def obj_key(o):
    o = strip_cast(o) if o is not None else None
    if o is None or o.get("k") == "This":
        return "this"
    if o.get("k") == "Ref":
        return "d%s" % o.get("d")
    return render(o)


_TOGETHER = {}


def arrays_allocated_together(facts, cls):
    """do the constructors of cls that leave _elements unallocated leave _indices unallocated too and vice versa (and with the same zero
    parameters)?  Then a null test of any array accessor speaks for all arrays of the object."""
    key = (id(facts), cls)
    if key not in _TOGETHER:
        sa, sb = unallocated_states(facts, cls, SLOT_VECTORS[0]), unallocated_states(facts, cls, SLOT_VECTORS[1])
        if any(sl is None for _, sl, _ in sa + sb):
            _TOGETHER[key] = False
        else:
            a = sorted((c.full, c.line, sorted(sl.items())) for c, sl, _ in sa)
            b = sorted((c.full, c.line, sorted(sl.items())) for c, sl, _ in sb)
            _TOGETHER[key] = bool(a) and a == b
    return _TOGETHER[key]


def emptiness_polarity(cond, obj, vec, fn=None):
    c0 = strip_cast(cond)
    if fn is not None and c0 is not None and c0.get("k") == "Ref" and c0.get("dk") == "local":
        c1 = through_consts(fn, c0)
        if c1 is not c0:
            return _emptiness_polarity(c1, obj, vec, fn)
    return _emptiness_polarity(cond, obj, vec, fn)


def _emptiness_polarity(cond, obj, vec, fn=None):
    """+1: cond true => the arrays of `obj` may be unallocated (size()==0, used_elements()==0, _vec.size()==0, _vec.empty());
       -1: cond true => they are allocated / there is something to process (!= 0, > 0, !empty()); None: not an emptiness test"""
    c = strip_cast(cond)
    if c is None:
        return None
    if c.get("k") == "Un" and c.get("op") == "!":
        p = emptiness_polarity(c["e"], obj, vec, fn)
        return -p if p else None

    def null_subject(x):
        """x is the pointer of a nullable accessor of `obj` for the arrays `vec` (directly or through a constant local)"""
        x = through_consts(fn, x) if fn is not None else strip_cast(x)
        if x is None or x.get("k") != "MCall" or x.get("a") or fn is None or obj_key(x.get("obj")) != obj:
            return False
        v2 = nullable_accessors_cached(fn.facts, x.get("ccls") or "").get(x.get("n"))
        if v2 is None:
            return False
        return v2 == vec or arrays_allocated_together(fn.facts, x.get("ccls") or "")
    if null_subject(c):
        return -1          # `if(ptr)`
    if c.get("k") == "Bin" and c.get("op") in ("==", "!="):
        for a_, b_ in ((c["lhs"], c["rhs"]), (c["rhs"], c["lhs"])):
            if strip_cast(b_).get("k") == "Null" and null_subject(a_):
                return 1 if c["op"] == "==" else -1

    def subject(x):
        x = through_consts(fn, x) if fn is not None else strip_cast(x)
        if x is None or x.get("k") != "MCall" or x.get("a"):
            return False
        o = x.get("obj")
        if x.get("n") in ZERO_ACCESSORS and obj_key(o) == obj:
            return True
        if x.get("n") in ("size", "empty") and this_member(o, (vec,)) and obj == "this":
            return True
        return False
    if c.get("k") == "MCall" and c.get("n") == "empty" and subject(c):
        return 1
    if c.get("k") == "MCall" and c.get("n") != "empty" and subject(c):
        return -1          # `if(size())`
    if c.get("k") == "Bin" and c.get("op") in ("==", "!=", ">", "<"):
        l, r = c["lhs"], c["rhs"]
        if subject(l) and is_zero(r):
            return {"==": 1, "!=": -1, ">": -1}.get(c["op"])
        if subject(r) and is_zero(l):
            return {"==": 1, "!=": -1, "<": -1}.get(c["op"])
    return None


def cfg_block_of(fn, par, node):
    """CFG block in which `node` (or the closest enclosing recorded statement, or the loop header of a loop) is evaluated"""
    cfg = fn.cfg
    if cfg is None:
        return None
    if node.get("k") in ("For", "While") and node.get("c") is not None:
        for b in cfg.blocks.values():
            if b.get("cond") == node["c"].get("i"):
                return b["id"]
    x = node
    while x is not None:
        w = cfg.block_of(x.get("i")) if x.get("i") is not None else None
        if w is not None:
            return w[0]
        x = par.get(id(x))
    return None


def emptiness_guard(fn, par, node, obj, vec):
    """a branch on an emptiness test that dominates `node` and from whose 'empty' edge `node` cannot be reached -> the If node, else None"""
    cfg = fn.cfg
    tb = cfg_block_of(fn, par, node)
    if cfg is None or tb is None:
        return None
    for b in cfg.blocks.values():
        if b.get("cond") is None or b.get("term") not in ("IfStmt", "ConditionalOperator") or len(b.get("succ", [])) != 2:
            continue
        c = fn.by_id(b["cond"])
        if c is None:
            continue
        pol = emptiness_polarity(c, obj, vec, fn)
        if pol is None:
            continue
        empty_succ = b["succ"][0] if pol > 0 else b["succ"][1]
        if b["id"] != tb and b["id"] not in cfg.dom.get(tb, ()):
            continue
        if empty_succ is None:
            return c
        if tb not in cfg.reachable(empty_succ):
            return c
    return None


def nullable_accessors(facts, cls):
    """zero-argument members of cls of the form `if(this->_V.size() == 0) return nullptr; return this->_V.at(k);` -> name -> vector"""
    out = {}
    for f in facts.functions:
        if f.cls != cls or f.tk == "pattern" or f.params:
            continue
        rets = [n for n in f.nodes() if n.get("k") == "Return" and n.get("e") is not None]
        nul = [r for r in rets if strip_cast(r["e"]).get("k") == "Null"]
        slot = [r for r in rets if strip_cast(r["e"]).get("k") == "MCall" and strip_cast(r["e"]).get("n") == "at" and this_member(strip_cast(r["e"]).get("obj"), SLOT_VECTORS)]
        if nul and slot:
            out[f.name] = strip_cast(strip_cast(slot[0]["e"])["obj"])["n"]
    return out


def scalar_slot_of(facts, callee, depth=0):
    """the accessor `callee` (qualified name) returns this->_scalar_index.at(k), possibly scaled by a block size or through
    another zero-argument accessor of the object -> k"""
    ks = set()
    for f in facts.functions:
        if f.qn == callee and f.tk != "pattern" and not f.params:
            rets = [x for r in f.nodes() if r.get("k") == "Return" and r.get("e") is not None and not is_zero(r["e"]) for x in walk(r["e"])]
            for n in rets:
                if n.get("k") == "MCall" and n.get("n") == "at" and this_member(n.get("obj"), ("_scalar_index",)) and strip_cast(n["a"][0]).get("k") == "Int":
                    ks.add(int(strip_cast(n["a"][0])["v"]))
                elif n.get("k") == "MCall" and not n.get("a") and n.get("callee") != callee and depth < 3 and obj_key(n.get("obj")) == "this":
                    k2 = scalar_slot_of(facts, n.get("callee"), depth + 1)
                    if k2 is not None:
                        ks.add(k2)
    return ks.pop() if len(ks) == 1 else None


def zero_test_param(c, pol):
    """(c == pol) says that a parameter is zero -> its decl id, else None   (`p == 0`, `!(p != 0)`, `!(p > 0)`, `!p` ...)"""
    c = strip_cast(c)
    if c is None:
        return None
    if c.get("k") == "Un" and c.get("op") == "!":
        return zero_test_param(c["e"], not pol)
    if c.get("k") == "Ref" and c.get("dk") == "param":
        return c["d"] if not pol else None
    if c.get("k") == "Bin" and c.get("op") in ("==", "!=", ">", "<"):
        for a_, b_, op in ((c["lhs"], c["rhs"], c["op"]), (c["rhs"], c["lhs"], {"<": ">", ">": "<"}.get(c["op"], c["op"]))):
            a0 = strip_cast(a_)
            while a0 is not None and a0.get("k") in ("Construct", "TempObj") and len(a0.get("a", [])) == 1:
                a0 = strip_cast(a0["a"][0])
            if a0 is not None and a0.get("k") == "Ref" and a0.get("dk") == "param" and is_zero(b_):
                if (op == "==" and pol) or (op in ("!=", ">") and not pol):
                    return a0["d"]
    return None


def alloc_effect(facts, f, vec, depth=0):
    """what a constructor / member function does to this->vec: 'never' pushes an array, 'always' (on every path it is taken to) pushes one,
    ('zero', {params}) pushes one unless one of these parameters is zero (early return on zero, or allocation nested in `if(p != 0)`),
    'unknown' if the allocation depends on anything else.  Helpers of the same class called on this are followed (their zero parameters
    are translated to the caller's arguments)."""
    if depth > 3:
        return "unknown"
    pushes = [n for n in f.nodes() if n.get("k") == "MCall" and n.get("n") in ("push_back", "assign", "emplace_back") and this_member(n.get("obj"), (vec,))]
    helpers = []
    for n in f.nodes():
        if n.get("k") == "MCall" and (n.get("obj") is None or strip_cast(n["obj"]).get("k") == "This") and not n.get("cconst"):
            g = norm_c05.callee_function(facts, n)
            if g is not None and g is not f and g.cls == f.cls:
                e = alloc_effect(facts, g, vec, depth + 1)
                if e != "never":
                    helpers.append((n, g, e))
    if not pushes and not helpers:
        return "never"
    par = parent_map(f)
    zero = set()
    for site, eff in [(p_, "always") for p_ in pushes] + [(n, e) for n, g, e in helpers]:
        if eff == "unknown":
            return "unknown"
        if isinstance(eff, tuple):
            # zero parameters of the helper in terms of this function's parameters
            n, g = [(n_, g_) for n_, g_, e_ in helpers if n_ is site][0]
            for zp in eff[1]:
                idx = [i for i, p_ in enumerate(g.params) if p_["d"] == zp]
                if not idx or idx[0] >= len(n.get("a", [])):
                    return "unknown"
                a0 = strip_cast(n["a"][idx[0]])
                if a0.get("k") == "Ref" and a0.get("dk") == "param":
                    zero.add(a0["d"])
                else:
                    return "unknown"
        # conditions the site is nested in / early returns in front of it
        x = site
        while id(x) in par:
            p = par[id(x)]
            if p.get("k") == "If" and not any(y is site for y in walk(p.get("c"))):
                in_then = p.get("then") is not None and any(y is site for y in walk(p["then"]))
                zp = zero_test_param(p["c"], not in_then)      # the site is skipped when the condition has the other value
                if zp is None:
                    return "unknown"
                zero.add(zp)
            elif p.get("k") in ("For", "While", "Do", "ForRange", "Switch", "Try", "Cond"):
                return "unknown"
            x = p
        for s_ in stmts_of(f.body):
            if any(y is site for y in walk(s_)):
                break
            if s_.get("k") == "If" and s_.get("else") is None and norm_c05._terminates(stmts_of(s_.get("then"))) and any(x_.get("k") == "Return" for x_ in walk(s_.get("then"))):
                zp = zero_test_param(s_["c"], True)
                if zp is None:
                    if any(is_call(x_) and x_.get("noreturn") for x_ in walk(s_.get("then"))):
                        continue
                    return "unknown"
                zero.add(zp)
    return ("zero", zero) if zero else "always"


def alloc_sites(facts, f, vec):
    """statements of f after which this->vec holds an array: push_backs to it, and calls (on this) of helpers of the same class that push
    one on every path (alloc_effect 'always')"""
    out = [x for x in f.nodes() if x.get("k") == "MCall" and x.get("n") == "push_back" and this_member(x.get("obj"), (vec,))]
    for n in f.nodes():
        if n.get("k") == "MCall" and (n.get("obj") is None or strip_cast(n["obj"]).get("k") == "This") and not n.get("cconst"):
            g = norm_c05.callee_function(facts, n)
            if g is not None and g is not f and g.cls == f.cls and alloc_effect(facts, g, vec, 1) == "always":
                out.append(n)
    return out


def unallocated_states(facts, cls, vec):
    """constructors of cls with a path that never pushes to `vec`: -> [(ctor, {scalar slot -> 'zero'|'param'|'other'}, parameter names)].
    Slot 0 is the argument of the Container base initialiser, slot k the k-th `_scalar_index.push_back`.  A push that is preceded
    by `if(param == 0) return;` leaves the arrays unallocated exactly when that parameter is zero."""
    out = []
    for f in facts.functions:
        if f.cls != cls or f.tk == "pattern" or not f.d.get("ctor"):
            continue
        if any(is_call(n) and n.get("n") in ("read_from", "convert", "clone", "move", "assign", "_deserialize") for n in f.nodes()):
            continue
        if any(n.get("k") in ("Construct",) and strip_targs(n.get("ccls") or "") == strip_targs(cls) for i_ in (f.d.get("inits") or []) for n in walk(i_.get("init"))):
            continue   # delegating constructor
        eff = alloc_effect(facts, f, vec)
        if eff == "unknown":
            out.append((f, None, [p["n"] for p in f.params]))
            continue
        if eff == "always":
            continue
        zero_params = set(eff[1]) if isinstance(eff, tuple) else set()

        def source(a):
            refs = [x for x in walk(a) if x.get("k") == "Ref" and x.get("dk") == "param"]
            if is_zero(a):
                return "zero"
            if refs and all(x["d"] in zero_params for x in refs) and strip_cast(a).get("k") == "Ref":
                return "zero"
            if refs:
                # a product with a zero parameter is zero
                a0 = strip_cast(a)
                if a0.get("k") == "Bin" and a0.get("op") == "*" and any(strip_cast(x).get("d") in zero_params for x in (a0["lhs"], a0["rhs"])):
                    return "zero"
                return "param"
            return "other"
        slots = {}
        for i_ in (f.d.get("inits") or []):
            ini = i_.get("init")
            if ini is not None and "Container<" in (i_.get("base") or "") and ini.get("a"):
                slots[0] = source(ini["a"][0])
        k = 1
        for n in walk(f.body):
            if n.get("k") == "MCall" and n.get("n") == "push_back" and this_member(n.get("obj"), ("_scalar_index",)):
                slots[k] = source(n["a"][0])
                k += 1
        out.append((f, slots, [p["n"] for p in f.params]))
    return out


class FreeState:
    """value of integer expressions in the states of an object in which the arrays behind a nullable accessor are unallocated"""

    def __init__(self, facts, fn, cls, vec, obj):
        self.facts, self.fn, self.cls, self.vec, self.obj = facts, fn, cls, vec, obj
        self.states = unallocated_states(facts, cls, vec)
        self.witness = None

    def zero(self, n, depth=0):
        """True iff the expression is 0 in every unallocated state"""
        n = through_consts(self.fn, n)
        if n is None or depth > 8:
            return False
        if is_zero(n):
            return True
        k = n.get("k")
        if k in ("Construct", "TempObj") and len(n.get("a", [])) == 1:
            return self.zero(n["a"][0], depth + 1)
        if k == "MCall" and not n.get("a") and obj_key(n.get("obj")) == self.obj:
            slot = scalar_slot_of(self.facts, n.get("callee"))
            if slot is None or not self.states:
                return False
            for c_, slots, pn in self.states:
                if slots is None:
                    self.witness = (c_, pn, n.get("n"), "unknown")
                    return False
                if slots.get(slot) != "zero":
                    self.witness = (c_, pn, n.get("n"), slots.get(slot))
                    return False
            return True
        if k == "Bin" and n.get("op") == "*":
            return self.zero(n["lhs"], depth + 1) or self.zero(n["rhs"], depth + 1)
        if k == "Cond":
            t = self.truth(n["c"], depth + 1)
            if t is True:
                return self.zero(n["then"], depth + 1)
            if t is False:
                return self.zero(n["else"], depth + 1)
            return self.zero(n["then"], depth + 1) and self.zero(n["else"], depth + 1)
        return False

    def truth(self, c, depth=0):
        c = strip_cast(c)
        if c.get("k") == "Un" and c.get("op") == "!":
            t = self.truth(c["e"], depth + 1)
            return None if t is None else (not t)
        if c.get("k") == "Bin" and c.get("op") in ("==", "!=", ">", "<"):
            for a_, b_, op in ((c["lhs"], c["rhs"], c["op"]), (c["rhs"], c["lhs"], {"<": ">", ">": "<"}.get(c["op"], c["op"]))):
                if is_zero(b_) and self.zero(a_, depth + 1):
                    return {"==": True, "!=": False, ">": False}.get(op)
        return None


def nullable_subscripts(facts, f):
    """every subscript / dereference in f of a pointer obtained from a nullable accessor (directly or through a local pointer):
    -> [(node, accessor MCall)]"""
    accs = {}
    for n in f.nodes():
        if n.get("k") == "MCall" and not n.get("a") and n.get("ccls"):
            na = nullable_accessors_cached(facts, n["ccls"])
            if n.get("n") in na:
                accs[id(n)] = (n, na[n["n"]])
    ptrvar = {}
    for n in f.nodes():
        if n.get("k") == "Decl":
            for v in n["vars"]:
                ini = strip_cast(v.get("init")) if v.get("init") is not None else None
                if ini is not None and id(ini) in accs:
                    ptrvar[v["d"]] = accs[id(ini)]
    out = []
    for n in f.nodes():
        base = None
        if n.get("k") == "Index":
            base = strip_cast(n["b"])
        elif n.get("k") == "Un" and n.get("op") == "*" and not n.get("post"):
            base = strip_cast(n["e"])
        if base is None:
            continue
        if id(base) in accs:
            out.append((n, accs[id(base)]))
        elif base.get("k") == "Ref" and base.get("d") in ptrvar:
            out.append((n, ptrvar[base["d"]]))
    return out


_NA_CACHE = {}


def nullable_accessors_cached(facts, cls):
    key = (id(facts), cls)
    if key not in _NA_CACHE:
        _NA_CACHE[key] = nullable_accessors(facts, cls)
    return _NA_CACHE[key]


def check_empty_containers(ck, facts):
    io_names = ("write_out", "read_from")
    seen_defs = set()
    # helpers of the same class an IO routine calls on this (entry visitors, line writers): their loops are the IO routine's loops
    io_helpers = {}
    for f in facts.functions:
        if f.tk == "pattern" or f.name not in io_names or not re.match(r"^FEAT::LAFEM::(Dense|Sparse)", f.cls) or len(f.params) < 2 or "stream" not in f.type(f.params[1]["t"]):
            continue
        frontier = [f]
        for _ in range(2):
            nxt = []
            for h in frontier:
                for n in h.nodes():
                    if n.get("k") == "MCall" and n.get("a") is not None and (n.get("obj") is None or strip_cast(n["obj"]).get("k") == "This"):
                        g = norm_c05.callee_function(facts, n)
                        if g is not None and g.cls == f.cls and g.file == f.file and g.name not in io_names and id(g) not in io_helpers and (g.params or not g.d.get("const")) \
                                and g.name not in ("_serialize", "_deserialize", "convert", "clone", "assign", "clear", "move", "format"):
                            io_helpers[id(g)] = g
                            nxt.append(g)
            frontier = nxt
    for f in sorted(facts.functions, key=lambda f: f.full):
        helper = id(f) in io_helpers
        if f.tk == "pattern" or (f.name not in io_names and not helper) or not re.match(r"^FEAT::LAFEM::(Dense|Sparse)", f.cls):
            continue
        if not helper and (len(f.params) < 2 or "stream" not in f.type(f.params[1]["t"])):
            continue
        sc = strip_targs(short_cls(f.cls))    # keys are per class template: every instantiation has the same body shape
        if (f.file, f.line) in seen_defs:
            continue
        seen_defs.add((f.file, f.line))
        par = parent_map(f)
        cfg = f.cfg
        groups = mode_groups(f) or []

        def mode_of(n):
            for ls, st in groups:
                if any(y is n for s_ in st for y in walk(s_)):
                    return "+".join(sorted(l.rsplit("::", 1)[-1] for l in ls))
            return "-"
        # ---- A: direct slot accesses
        for n in f.nodes():
            sr_ = slot_ref(n, SLOT_VECTORS) if n.get("k") in ("MCall", "OpCall") else None
            if sr_ is None:
                continue
            vec = sr_[0]
            key = "%s/%s(%s)/%s.at(%s)" % (sc, f.name, mode_of(n), vec, sr_[1])
            pushes = alloc_sites(facts, f, vec)
            tb = cfg_block_of(f, par, n)
            x = n
            while cfg is not None and cfg.block_of(x.get("i")) is None and id(x) in par:
                x = par[id(x)]
            dom = cfg is not None and any(cfg.stmt_dominates(p_["i"], x["i"]) for p_ in pushes)
            guard = emptiness_guard(f, par, n, "this", vec)
            states = [c for c, _, _ in unallocated_states(facts, f.cls, vec)]
            if not states:
                ck.incomplete("E7.slot-guard", "%s: no constructor of the class instantiated in the driver to establish the unallocated state" % key)
                continue
            ok = dom or guard is not None
            ck.ob("E7.slot-guard", key, ok,
                  ("dominated by a push_back to %s in the same routine (directly or through a helper of the class that always allocates)" % vec) if dom else
                  ("only reachable on the non-empty edge of '%s'" % render(guard)) if guard is not None else
                  "this->%s.at(%s) is reached without any emptiness guard, while %s leaves %s empty and the public accessor of the same class guards exactly this access (returns nullptr)" % (
                      vec, sr_[1], short_cls(states[0].full), vec), f.file, n.get("l"))
        # ---- B: loops that subscript the pointer of a nullable accessor
        subs = nullable_subscripts(facts, f)
        loops = {}
        for n, (acc, vec) in subs:
            chain = []
            x = n
            while id(x) in par:
                x = par[id(x)]
                if x.get("k") in ("For", "While", "ForRange", "Do"):
                    chain.append(x)
            if not chain:
                # a subscript outside any loop: its own obligation
                chain = [None]
            inner = chain[0]
            loops.setdefault(id(inner) if inner is not None else id(n), {"loop": inner, "chain": chain, "uses": []})["uses"].append((n, acc, vec))
        ordinal = {}
        for lid, info in sorted(loops.items(), key=lambda kv: ((kv[1]["loop"] or kv[1]["uses"][0][0]).get("l") or 0)):
            lp = info["loop"]
            n0, acc0, vec0 = info["uses"][0]
            accs_used = sorted(set("%s()" % a.get("n") for _, a, _ in info["uses"]))
            obj = obj_key(acc0.get("obj"))
            base_key = "%s/%s(%s)/%s" % (sc, f.name, mode_of(n0), "+".join(accs_used))
            ordinal[base_key] = ordinal.get(base_key, 0) + 1
            key = base_key + ("#%d" % ordinal[base_key] if ordinal[base_key] > 1 else "")
            results = []
            for vec_ in sorted(set(v for _, _, v in info["uses"])):
                uses_v = [(n_, a_, v_) for n_, a_, v_ in info["uses"] if v_ == vec_]
                results.append(decide_nullable(ck, facts, f, par, cfg, info, uses_v, vec_, obj, lp, accs_used))
            if any(r is None for r in results):
                ck.incomplete("E7.nullable-deref", "%s: no constructor of %s instantiated in the driver to establish the array-free state" % (key, short_cls(acc0.get("ccls"))))
                continue
            inc = [r for r in results if r[0] == "incomplete"]
            bad = [r for r in results if r[0] is False]
            if inc and not bad:
                ck.incomplete("E7.nullable-deref", "%s: %s" % (key, inc[0][1]))
            elif bad:
                ck.ob("E7.nullable-deref", key, False, bad[0][1], f.file, n0.get("l"))
            else:
                ck.ob("E7.nullable-deref", key, True, "; ".join(sorted(set(r[1] for r in results))), f.file, n0.get("l"), trivial=all(r[2] for r in results))


def decide_nullable(ck, facts, f, par, cfg, info, uses, vec0, obj, lp, accs_used):
    """-> (ok, reason, trivial) for the uses of one array vector in one loop, or None if the array-free state cannot be established"""
    n0, acc0, _ = uses[0]
    names = "/".join(sorted(set("%s()" % a.get("n") for _, a, _ in uses)))
    # arrays allocated by this very routine before the pointer is taken
    if obj == "this" and cfg is not None:
        pushes = alloc_sites(facts, f, vec0)
        if pushes and all(any(cfg.stmt_dominates(p_["i"], a_["i"]) for p_ in pushes) for _, a_, _ in uses):
            return True, "%s: %s is allocated by a push_back in this routine before the pointer is taken" % (names, vec0), True
    if obj.startswith("d"):
        o_ = strip_cast(acc0.get("obj"))
        ini = const_inits(f).get(o_.get("d"))
        ini = strip_cast(ini) if ini is not None else None
        if ini is not None and ini.get("k") in ("Construct", "TempObj") and ini.get("a") and f.name == "read_from":
            return True, "%s: the object is constructed in this reader with the extent parsed from the size line (%s); files are assumed to be as the writer of the class produces them" % (
                names, render(ini)[:60]), True
    fs = FreeState(facts, f, acc0.get("ccls"), vec0, obj)
    if not fs.states:
        return None
    for l_ in [x for x in info["chain"] if x is not None]:
        if l_.get("k") == "For":
            c = strip_cast(l_.get("c"))
            if c is not None and c.get("k") == "Bin" and c.get("op") in ("<", "!="):
                if fs.zero(c["rhs"]):
                    return True, "%s: the loop at line %s runs to '%s', which is 0 whenever %s is unallocated" % (names, l_.get("l"), render(through_consts(f, c["rhs"]))[:70], vec0), False
    g = emptiness_guard(f, par, lp if lp is not None else n0, obj, vec0)
    if g is not None:
        return True, "%s: only reachable on the non-empty edge of '%s'" % (names, render(g)), False
    w = fs.witness
    if w is None or w[3] != "param":
        return "incomplete", "%s: the trip count of the loop at line %s in the states where %s is unallocated could not be evaluated (bound not built from scalar accessors of the object), and no emptiness guard was recognised" % (
            names, (lp or n0).get("l"), vec0), False
    why_bad = "%s returns nullptr when %s is unallocated and is subscripted in the loop at line %s, whose trip count is not zero in that state" % (names, vec0, (lp or n0).get("l"))
    why_bad += ": the constructor %s(%s) leaves %s unallocated with %s() taken from its argument" % (strip_targs(short_cls(w[0].cls)), ", ".join(w[1]), vec0, w[2])
    return False, why_bad + "; no emptiness guard dominates the loop", False


# -------------------------------------------------------------------------------------------------
# clause 7: re-used streams — clear() re-establishes every member the stream operations evolve
# -------------------------------------------------------------------------------------------------

MUTATORS = ("resize", "push_back", "emplace_back", "pop_back", "clear", "insert", "erase", "assign", "swap", "reserve", "shrink_to_fit")


def field_of_this(n):
    n = strip_cast(n)
    if n is not None and n.get("k") == "Member" and n.get("field") and (n.get("b") is None or strip_cast(n["b"]).get("k") == "This"):
        return n["n"]
    return None


def member_effects(f):
    """-> (set of fields of this read or written in f, dict field -> [how it is mutated])"""
    used, mut = set(), {}
    par = parent_map(f)
    for n in f.nodes():
        m = field_of_this(n)
        if m is None:
            continue
        used.add(m)
        p = par.get(id(n))
        # climb through subscripts / casts: _data[i] = x mutates _data
        x, q = n, p
        while q is not None and (q.get("k") == "Cast" or (q.get("k") in ("Index",) and strip_cast(q.get("b")) is x) or (q.get("k") == "OpCall" and q.get("op") == "[]" and strip_cast(q["a"][0]) is x)):
            x, q = q, par.get(id(q))
        if q is None:
            continue
        if q.get("k") == "Assign" and strip_cast(q["lhs"]) is strip_cast(x):
            mut.setdefault(m, []).append("assigned" if x is n else "element assigned")
        elif q.get("k") == "OpCall" and q.get("op") in ("=", "+=", "-=") and strip_cast(q["a"][0]) is strip_cast(x):
            mut.setdefault(m, []).append("assigned")
        elif q.get("k") == "Un" and q.get("op") in ("++", "--"):
            mut.setdefault(m, []).append(q["op"])
        elif q.get("k") == "MCall" and strip_cast(q.get("obj")) is n:
            if q.get("n") in MUTATORS or not q.get("cconst"):
                mut.setdefault(m, []).append(".%s()" % q.get("n"))
        elif q.get("k") == "Return" and (f.type(f.d.get("ret")) or "").endswith("&") and "const" not in (f.type(f.d.get("ret")) or ""):
            mut.setdefault(m, []).append("returned by mutable reference")
    return used, mut


def is_empty_temp(n):
    n = strip_cast(n)
    return n is not None and n.get("k") in ("Construct", "TempObj", "InitList") and not [a for a in n.get("a", []) if not is_zero(a)]


def reset_effects(facts, f, depth=0):
    """what a reset routine does to the fields of its object: field -> ('reset', text, constant or None) | ('unmodelled', text)"""
    out = {}
    for n in f.nodes():
        k = n.get("k")
        if k in ("Assign", "OpCall") and n.get("op") == "=":
            l, r_ = (n["lhs"], n["rhs"]) if k == "Assign" else n["a"]
            m = field_of_this(l)
            if m is not None:
                const = "0" if is_zero(r_) or is_empty_temp(r_) else None
                out.setdefault(m, []).append(("reset", render(n)[:60], const if const is not None else render(strip_cast(r_))[:40]))
        if k == "MCall":
            m = field_of_this(n.get("obj"))
            if m is not None:
                if n.get("n") == "clear" or (n.get("n") == "resize" and n.get("a") and is_zero(n["a"][0])) or (n.get("n") == "swap" and n.get("a") and is_empty_temp(n["a"][0])) \
                        or (n.get("n") == "assign" and n.get("a") and is_zero(n["a"][0])):
                    out.setdefault(m, []).append(("reset", render(n)[:60], "0"))
                elif n.get("n") in MUTATORS or not n.get("cconst"):
                    out.setdefault(m, []).append(("unmodelled", render(n)[:60]))
            elif n.get("n") == "swap" and n.get("a") and field_of_this(n["a"][0]) is not None:
                m2 = field_of_this(n["a"][0])
                out.setdefault(m2, []).append(("reset", render(n)[:60], "0") if is_empty_temp(n.get("obj")) else ("unmodelled", render(n)[:60]))
            elif (n.get("obj") is None or strip_cast(n["obj"]).get("k") == "This") and depth < 2:
                for g in facts.functions:
                    if g.qn == n.get("callee") and g.cls == f.cls and g.tk != "pattern" and g is not f:
                        for m2, v in reset_effects(facts, g, depth + 1).items():
                            out.setdefault(m2, []).extend(v)
                        break
        if k == "Call":
            for a in n.get("a", []):
                m = field_of_this(a)
                if m is not None:
                    other = [x for x in n["a"] if x is not a]
                    if (n.get("callee") or "").endswith("swap") and other and is_empty_temp(through_consts(f, other[0])):
                        out.setdefault(m, []).append(("reset", render(n)[:60], "0"))
                    else:
                        out.setdefault(m, []).append(("unmodelled", render(n)[:60]))
    return out


def check_reset_state(ck, facts):
    """classes of the in-memory stream (kernel/util/binary_stream.hpp): clear() must re-establish every member that the operations of the
    class evolve (write/read/seek position, content); a routine that refills the content wholesale resets first"""
    R = "E7.reset-covers-state"
    target = featlib.repo_path("kernel/util/binary_stream")
    classes = {}
    for f in facts.functions:
        if f.tk != "pattern" and f.file.startswith(target) and f.cls:
            classes.setdefault(f.cls, []).append(f)
    if not classes:
        ck.incomplete(R, "no class of kernel/util/binary_stream.hpp in the facts")
        return
    for cls in sorted(classes):
        fs = classes[cls]
        clears = [f for f in fs if f.name == "clear" and not f.params]
        if not clears:
            continue
        clr = clears[0]
        sc = short_cls(cls).replace("FEAT::", "")
        evolve, readers = {}, {}
        for f in fs:
            if f is clr or f.d.get("ctor") or f.d.get("dtor"):
                continue
            used, mut = member_effects(f)
            for m in used:
                readers.setdefault(m, set()).add(f.name)
            for m, how in mut.items():
                evolve.setdefault(m, []).append("%s (%s)" % (f.name, how[0]))
        inits = {}
        for f in fs:
            if f.d.get("ctor"):
                for i_ in (f.d.get("inits") or []):
                    if i_.get("member") and i_.get("init") is not None:
                        a_ = i_["init"].get("a", [i_["init"]]) if i_["init"].get("k") in ("Construct", "TempObj", "InitList") else [i_["init"]]
                        inits[i_["member"]] = "0" if (not a_ or all(is_zero(x) for x in a_)) else render(i_["init"])[:40]
        eff = reset_effects(facts, clr)
        whole = whole_object_updates(clr)
        for m in sorted(evolve):
            if whole and not [a for a in eff.get(m, []) if a[0] == "reset"]:
                eff.setdefault(m, []).append(("unmodelled", whole[0]))
            key = "%s/clear/%s" % (sc, m)
            acts = eff.get(m, [])
            res = [a for a in acts if a[0] == "reset"]
            unm = [a for a in acts if a[0] == "unmodelled"]
            if res:
                c1 = res[-1][2]
                c0 = inits.get(m)
                if c0 is not None and c1 is not None and c0 == "0" and c1 != "0" and re.match(r"^-?\d+$", c1 or ""):
                    ck.ob(R, key, False, "clear() sets %s to %s, a fresh object starts with %s" % (m, c1, c0), clr.file, clr.line)
                else:
                    ck.ob(R, key, True, "evolved by %s; clear() re-establishes it (%s)" % (", ".join(sorted(set(evolve[m]))[:3]), res[-1][1]), clr.file, clr.line,
                          sample={"member": m, "evolved_by": sorted(set(evolve[m])), "reset": res[-1][1]})
            elif unm:
                ck.incomplete(R, "%s: clear() applies %s to the member, which the analysis does not model as a reset" % (key, unm[0][1]))
            else:
                ck.ob(R, key, False, "%s is evolved by %s and read by %s, but clear() does not re-establish it: after use, clear(), use the object continues from the stale value "
                      "(a stream written/read before and then cleared puts the next bytes at the old position)" % (
                          m, ", ".join(sorted(set(evolve[m]))[:3]), ", ".join(sorted(readers.get(m, []))[:4])), clr.file, clr.line)
        # wholesale refill of the storage of a member object through a mutable accessor: reset first
        for f in fs:
            if f is clr or f.d.get("ctor"):
                continue
            cfg = f.cfg
            for n in f.nodes():
                if n.get("k") == "MCall" and n.get("n") in ("resize", "assign") and strip_cast(n.get("obj")).get("k") == "Ref":
                    ini = const_inits(f).get(strip_cast(n["obj"]).get("d"))
                    ini = strip_cast(ini) if ini is not None else None
                    if ini is None or ini.get("k") != "MCall" or field_of_this(ini.get("obj")) is None or ini.get("cconst"):
                        continue
                    mobj = field_of_this(ini["obj"])
                    resets = [x for x in f.nodes() if x.get("k") == "MCall" and x.get("n") == "clear" and not x.get("a")
                              and (x.get("obj") is None or strip_cast(x["obj"]).get("k") == "This" or field_of_this(x.get("obj")) == mobj)]
                    dom = cfg is not None and any(cfg.stmt_dominates(x["i"], n["i"]) for x in resets)
                    key = "%s/%s/reset-before-refill" % (sc, f.name)
                    if dom:
                        ck.ob(R, key, True, "the storage of %s is refilled by %s after %s" % (mobj, render(n)[:40], render(resets[0])), f.file, n.get("l"))
                    elif any(is_call(x) and x is not n and x is not ini and (field_of_this(x.get("obj")) == mobj) and not x.get("cconst") for x in f.nodes()):
                        ck.incomplete(R, "%s: the storage of %s is refilled without a recognised reset, but other non-const members of it are called" % (key, mobj))
                    else:
                        ck.ob(R, key, False, "%s replaces the whole content of %s (%s) without resetting it first: the position of the previous use survives" % (f.name, mobj, render(n)[:40]), f.file, n.get("l"))


# -------------------------------------------------------------------------------------------------
# clause 8: the size tables the serialiser reads follow every (re)allocation of an array
# -------------------------------------------------------------------------------------------------

def norm_extent(t):
    """this._x() and this.x() denote the same scalar slot"""
    return re.sub(r"this\._(\w+)\(\)", r"this.\1()", t or "")


def alloc_extent(L, f, n):
    """n is `allocate_memory<T>(N)` or a local initialised with one -> canonical N, else None"""
    n = through_consts(f, n)
    if n is not None and n.get("k") == "Call" and strip_targs(n.get("callee", "")).endswith("MemoryPool::allocate_memory") and n.get("a"):
        return L.canon(n["a"][0])
    return None


def slot_ref(l, names):
    """this->_vec.at(k) / this->_vec[k] with _vec in names -> (vector name, text of k), else None"""
    l = strip_cast(l)
    if l is None:
        return None
    if l.get("k") == "MCall" and l.get("n") == "at" and len(l.get("a", [])) == 1 and this_member(l.get("obj"), names):
        return strip_cast(l["obj"])["n"], render(strip_cast(l["a"][0]))
    if l.get("k") == "OpCall" and l.get("op") == "[]" and len(l.get("a", [])) == 2 and this_member(l["a"][0], names):
        return strip_cast(l["a"][0])["n"], render(strip_cast(l["a"][1]))
    return None


def check_size_tables(ck, facts):
    """every member function of a Container-derived class that puts a freshly allocated array into this->_elements / this->_indices
    (push_back or replacement of a slot) records the extent of that allocation in the matching entry of _elements_size / _indices_size
    on every path through the allocation.  Container::_serialize / _serialized_size / clone trust exactly these entries."""
    R = "E7.size-table-follows-array"
    seen = set()
    for f in sorted(facts.functions, key=lambda f: f.full):
        if f.tk == "pattern" or not re.match(r"^FEAT::LAFEM::", f.cls or "") or (f.file, f.line) in seen:
            continue
        events = []     # (vector, kind push|slot, slot text, node, extent)
        L = None
        for n in f.nodes():
            vec = kind = slot = src = None
            if n.get("k") == "MCall" and n.get("n") == "push_back" and this_member(n.get("obj"), SLOT_VECTORS) and n.get("a"):
                vec, kind, slot, src = strip_cast(n["obj"])["n"], "push", "", n["a"][0]
            elif n.get("k") == "Assign" and n.get("op") == "=":
                sr_ = slot_ref(n["lhs"], SLOT_VECTORS)
                if sr_ is not None:
                    vec, kind, slot, src = sr_[0], "slot", sr_[1], n["rhs"]
            if vec is None:
                continue
            if L is None:
                L = LayoutFn(f, "w")
            try:
                ext = alloc_extent(L, f, src)
            except Unknown:
                ext = None
            if ext is None:
                continue      # arrays taken over from elsewhere (shared, moved, foreign): not an allocation of this routine
            events.append((vec, kind, slot, n, ext))
        if not events:
            continue
        seen.add((f.file, f.line))
        cfg = f.cfg
        par = parent_map(f)
        sc = strip_targs(short_cls(f.cls))
        fname = f.name if not f.d.get("ctor") else "ctor(%s)" % ",".join(p_["n"] for p_ in f.params)
        ordinal = {}
        for vec, kind, slot, n, ext in events:
            svec = vec + "_size"
            base = "%s::%s/%s%s" % (sc, fname, vec, ".push_back" if kind == "push" else ".at(%s)=" % slot)
            ordinal[base] = ordinal.get(base, 0) + 1
            key = base + ("#%d" % ordinal[base] if ordinal[base] > 1 else "")
            if norm_extent(ext).startswith("this.%s[" % svec):
                ck.ob(R, key, True, "allocated with the extent read from %s itself (%s)" % (svec, ext), f.file, n.get("l"), trivial=True)
                continue
            # matching updates of the size table
            ups = []
            for x in f.nodes():
                if kind == "push" and x.get("k") == "MCall" and x.get("n") == "push_back" and this_member(x.get("obj"), (svec,)) and x.get("a"):
                    ups.append((x, L.canon(x["a"][0])))
                if kind == "slot" and x.get("k") == "Assign" and x.get("op") == "=":
                    su_ = slot_ref(x["lhs"], (svec,))
                    if su_ is not None and su_[1] == slot:
                        ups.append((x, L.canon(x["rhs"])))
            wholesale = [x for x in f.nodes() if x.get("k") == "MCall" and x.get("n") in ("assign", "swap", "resize") and this_member(x.get("obj"), (svec,))] + \
                        [x for x in f.nodes() if (x.get("k") == "Assign" or (x.get("k") == "OpCall" and x.get("op") == "=")) and this_member(x["lhs"] if x.get("k") == "Assign" else x["a"][0], (svec,))]
            passed = [x for x in f.nodes() if is_call(x) and any(this_member(a, (svec,)) for a in x.get("a", []))]
            # a non-const member function of the same object may update the size table on behalf of this routine
            for x in f.nodes():
                if x.get("k") == "MCall" and not x.get("cconst") and (x.get("obj") is None or strip_cast(x["obj"]).get("k") == "This"):
                    g_ = norm_c05.callee_function(facts, x)
                    if g_ is f:
                        continue
                    if g_ is None:
                        if (x.get("ccls") or "") == f.cls and x.get("n") not in ("clear", "assign"):
                            passed.append(x)
                    elif any(this_member(y, (svec,)) for y in g_.nodes()):
                        passed.append(x)
            tb = cfg_block_of(f, par, n)
            if cfg is None or tb is None:
                ck.incomplete(R, "%s: no control-flow graph for the routine" % key)
                continue

            def relation(x):
                xb = cfg_block_of(f, par, x)
                if xb is None:
                    return None
                if xb == tb or xb in cfg.dom.get(tb, ()):
                    return "always"
                ok_, _ = cfg.must_pass(lambda s_: s_ is x or s_.get("i") == x.get("i"), start=tb)
                if ok_:
                    return "always"
                if xb in cfg.reachable(tb) or tb in cfg.reachable(xb):
                    return "some"
                return "never"
            if kind == "push":
                # the k-th array pushed onto the vector is described by the k-th entry pushed onto the size table
                mine = sorted([e_[3] for e_ in events if e_[0] == vec and e_[1] == "push"], key=lambda x: (x.get("l") or 0, x.get("i") or 0))
                allp = sorted([x for x in f.nodes() if x.get("k") == "MCall" and x.get("n") == "push_back" and this_member(x.get("obj"), (vec,))], key=lambda x: (x.get("l") or 0, x.get("i") or 0))
                ups_sorted = sorted(ups, key=lambda t: (t[0].get("l") or 0, t[0].get("i") or 0))
                if len(allp) == len(ups_sorted) and len(allp) > 1 and n in allp:
                    ups = [ups_sorted[allp.index(n)]]
            rel = [(x, c_, relation(x)) for x, c_ in ups]
            always = [(x, c_) for x, c_, r_ in rel if r_ == "always"]
            some = [(x, c_) for x, c_, r_ in rel if r_ == "some"]
            if always:
                same = [c_ for _, c_ in always if norm_extent(c_) == norm_extent(ext)]
                if same:
                    ck.ob(R, key, True, "array of extent %s; %s records %s on every path" % (ext, svec, same[0]), f.file, n.get("l"),
                          sample={"array": vec, "extent": ext, "size-entry": same[0]})
                else:
                    ck.incomplete(R, "%s: the array is allocated with extent '%s' but %s records '%s'; whether the two agree is not established" % (key, ext, svec, always[-1][1]))
            elif some or wholesale or passed:
                ck.incomplete(R, "%s: %s is updated on some paths only, wholesale, or by a callee (%s); not modelled" % (
                    key, svec, ", ".join(render(x)[:40] for x in ([y for y, _ in some] + wholesale + passed)[:2])))
            else:
                ck.ob(R, key, False, "a new array of extent %s is put into this->%s%s, but on no path through this statement is %s%s updated: Container::_serialize / _serialized_size / clone "
                      "copy %s entries of the array - after this routine the serialised image has a %s array of the old length" % (
                          ext, vec, "" if kind == "push" else ".at(%s)" % slot, svec, "" if kind == "push" else ".at(%s)" % slot, svec, vec.lstrip("_")), f.file, n.get("l"))


# -------------------------------------------------------------------------------------------------
# clause 4b: E4 — recursion scheme of the meta containers' stream / file IO
# -------------------------------------------------------------------------------------------------

IO_PAIR = {"write_out": "io", "read_from": "io", "_write_out_binary": "rec", "_read_from_binary": "rec", "write_out_binary": "bin", "read_from_binary": "bin"}


def member_io_calls(f):
    """ordered (member, kind, mode argument) of the IO calls a meta container forwards to its parts"""
    L = LayoutFn(f, "w")
    out = []
    for n in f.nodes():
        if n.get("k") == "MCall" and n.get("n") in IO_PAIR:
            o = strip_cast(n.get("obj")) if n.get("obj") is not None else None
            if o is None or o.get("k") == "This":
                who = "this"
            else:
                who = L.canon(o)
            mode = None
            if n.get("a") and "FileMode" in f.type(strip_cast(n["a"][0]).get("t")):
                mode = L.canon(n["a"][0])
            out.append((who, IO_PAIR[n["n"]], mode, n.get("l")))
    return out


def check_meta_stream_recursion(ck, facts):
    cls = {}
    for f in facts.functions:
        if f.tk == "pattern" or not re.match(r"^FEAT::LAFEM::(Power|Tuple)Vector<", f.cls):
            continue
        if f.name in ("_write_out_binary", "_read_from_binary"):
            cls.setdefault(f.cls, {})[f.name] = f
        if f.name in ("write_out", "read_from", "write_out_binary", "read_from_binary") and len(f.params) >= 1 and "stream" in f.type(f.params[-1]["t"]):
            cls.setdefault(f.cls, {})[f.name] = f
    seen = set()
    for c in sorted(cls):
        d = cls[c]
        for wn, rn in (("_write_out_binary", "_read_from_binary"), ("write_out", "read_from"), ("write_out_binary", "read_from_binary")):
            w, r = d.get(wn), d.get(rn)
            if w is None or r is None or (w.file, w.line) in seen:
                continue
            seen.add((w.file, w.line))
            a = [(x[0], x[1], x[2]) for x in member_io_calls(w)]
            b = [(x[0], x[1], x[2]) for x in member_io_calls(r)]
            rec = d.get("_write_out_binary")
            general = rec is not None and any(x[0] == "this._rest" for x in member_io_calls(rec))
            key = "%s%s/%s" % (strip_targs(short_cls(c)), "<First,Rest...>" if general else "<Last>", wn.strip("_"))
            if not a or not b:
                ck.incomplete("E4.block-order", "%s: no forwarded IO calls recognised on the %s side" % (key, "writer" if not a else "reader"))
                continue
            ck.ob("E4.block-order", key, a == b, "writer forwards %s; reader forwards %s" % (a, b), r.file, r.line,
                  sample={"writer": [list(x) for x in a], "reader": [list(x) for x in b]})


def check_meta_file_recursion(ck, facts):
    """meta matrices: the k-th name in the index file is the file of the k-th block, and the reader gives the k-th name to the k-th block"""
    byc = {}
    for f in facts.functions:
        if f.tk == "pattern" or not re.match(r"^FEAT::LAFEM::(Power(Col|Row|Diag)Matrix|TupleDiagMatrix|SaddlePointMatrix)<", f.cls):
            continue
        byc.setdefault(f.cls, {}).setdefault(f.name, []).append(f)
    seen = set()
    for c in sorted(byc):
        d = byc[c]
        wo = [f for f in d.get("write_out", []) if len(f.params) == 2]
        if not wo:
            continue
        w = wo[0]
        if (w.file, w.line) in seen:
            continue
        seen.add((w.file, w.line))
        sc = short_cls(c)
        key = "%s/files" % strip_targs(sc) + ("" if not any(k_[0] == w.file for k_ in seen if k_ != (w.file, w.line)) else "@%d" % len([k_ for k_ in seen if k_[0] == w.file]))
        L = LayoutFn(w, "w")
        # index file lines
        lines = []

        def visit(ss, env):
            for s_ in ss:
                k = s_.get("k")
                if k == "Block":
                    visit(s_.get("s", []), env)
                elif k == "For":
                    ini, cnd = s_.get("init"), strip_cast(s_.get("c"))
                    try:
                        v = ini["vars"][0]
                        lo = eval_int(v["init"], {})
                        hi = eval_int(cnd["rhs"], {})
                        rng = range(lo, hi + 1) if cnd.get("op") == "<=" else range(lo, hi)
                    except Exception:
                        raise Unknown("index-file loop at line %s" % s_.get("l"))
                    for i in rng:
                        e2 = dict(env)
                        e2[v["d"]] = i
                        visit(stmts_of(s_["body"]), e2)
                elif k == "OpCall" and s_.get("op") == "<<":
                    items = flatten_chain(s_)[1:]
                    tags = [strip_cast(x) for x in items]
                    strs = [x["v"] for x in tags if x.get("k") == "Str" and str(x["v"]).startswith("_")]
                    if strs:
                        idx = None
                        for x in tags:
                            if x.get("k") in ("Int", "Ref") and (x.get("k") == "Int" or x.get("d") in env):
                                idx = eval_int(x, env)
                        lines.append((strs[0], idx))
        try:
            visit(stmts_of(w.body), {})
            # sub-file names, following the recursion through write_out_submatrices
            names = []

            def sub(fn, env, depth=0):
                if depth > 16:
                    raise Unknown("recursion depth")
                for n in fn.nodes():
                    if n.get("k") != "MCall":
                        continue
                    o = strip_cast(n.get("obj")) if n.get("obj") is not None else None
                    if n.get("n") == "write_out" and o is not None and o.get("k") == "Member" and len(n.get("a", [])) >= 2:
                        strs = [x["v"] for x in walk(n["a"][1]) if x.get("k") == "Str" and str(x["v"]).startswith("_")]
                        idx = None
                        for x in walk(n["a"][1]):
                            if x.get("k") == "Call" and (x.get("callee") or "").endswith("stringify"):
                                idx = eval_int(x["a"][0], env)
                        if strs:
                            names.append((o["n"] if depth == 0 else "%s%s" % ("_rest." * depth, o["n"]), strs[0], idx))
                    if n.get("n") == "write_out_submatrices":
                        tgt = [g for g in facts.functions if g.full == n.get("cfull") and g.tk != "pattern"]
                        if o is None or o.get("k") == "This":
                            cand = [g for g in d.get("write_out_submatrices", [])]
                            tgt = cand[:1]
                            ndepth = depth
                        else:
                            tgt = [g for g in facts.functions if g.tk != "pattern" and g.name == "write_out_submatrices" and g.cls == n.get("ccls")]
                            ndepth = depth + 1
                        if not tgt:
                            raise Unknown("write_out_submatrices of %s not instantiated" % n.get("ccls"))
                        env2 = {}
                        for p_, a_ in zip(tgt[0].params, n.get("a", [])):
                            try:
                                env2[p_["d"]] = eval_int(a_, env)
                            except Unknown:
                                pass
                        if tgt[0] is not fn:
                            sub(tgt[0], env2, ndepth)
            sub(w, {})
        except Unknown as e:
            ck.incomplete("E4.block-order", "%s: %s" % (sc, e))
            continue
        if not lines or not names:
            continue
        a = [(t, i) for t, i in lines]
        b = [(t, i) for _, t, i in names]
        ck.ob("E4.block-order", "%s/index-file" % strip_targs(sc) + ("" if len(lines) > 1 else "<Last>"), a == b,
              "index file lists %s; blocks %s are written to %s" % (a, [m for m, _, _ in names], b), w.file, w.line,
              sample={"index": [list(x) for x in a], "files": [list(x) for x in names]})
        # reader: blocks receive the names in the order of the lines
        rd = [f for f in d.get("read_from", [])] + [f for f in d.get(strip_targs(sc).split("::")[-1], []) if len(f.params) == 3]
        order = []
        for f in rd:
            for n in stmts_of(f.body):
                for x in walk(n):
                    if x.get("k") in ("OpCall",) and x.get("op") == "=" and len(x.get("a", [])) == 2:
                        l = strip_cast(x["a"][0])
                        if l.get("k") == "Member" and l.get("n", "").startswith("_") and (l.get("b") is None or strip_cast(l["b"]).get("k") == "This"):
                            src = [y for y in walk(x["a"][1]) if y.get("k") == "Ref" and y.get("dk") == "local"]
                            if src:
                                order.append((l["n"], x.get("l"), f.full))
        top = [m for m, _, _ in names if "." not in m]
        got = []
        for m, _, _ in order:
            if m not in got:
                got.append(m)
        got_top = [m for m in got if m in top or m == "_rest"]
        want = top + (["_rest"] if any("." in m for m, _, _ in names) else [])
        if got_top and sorted(got_top) != sorted(want):
            ck.incomplete("E4.block-order", "%s: the reader's assignments of the blocks were not all recognised (%s vs %s)" % (sc, got_top, want))
        elif got_top:
            ck.ob("E4.block-order", "%s/reader-order" % strip_targs(sc) + ("" if len(lines) > 1 else "<Last>"), got_top == want,
                  "reader assigns the names in line order to %s; writer's block order is %s" % (got_top, want), rd[0].file, rd[0].line)


# -------------------------------------------------------------------------------------------------
# driver
# -------------------------------------------------------------------------------------------------

def declare_rules(ck, thorough):
    m = 2 if thorough else 1
    ck.rule("E12.header-slots", "every header word Container::_deserialize reads is written by _serialize and carries the field the reader takes it for "
            "(magic = FileMode tag, type hashes of DT_/IT_, array counts, compression flags); breaks for: every container when element- and index-array "
            "counts are exchanged (CSR: 1 vs 2 arrays), cross-type DT/IT streams when the type hashes are exchanged", 22 * m)
    ck.rule("E12.segments", "on every compression branch the writer and the reader traverse the same ordered sequence of metadata segments, alignment steps and "
            "payload arrays: same unit type, same symbolic offset, same length, same field, same element type / pack type; breaks for: containers with both element "
            "and index arrays (CSR, BCSR, banded, sparse vectors) when two segments are exchanged, DT2/IT2 of different width when an alignment differs", 90 * m)
    ck.rule("E12.unit-coherence", "a cursor that counts elements of type A only subscripts the A-typed view of the buffer, and is converted to another unit B only by "
            "c := (c*sizeof(A)+sizeof(B)-1)/sizeof(B); breaks for: serialisation type parameters with sizeof(DT2) != sizeof(IT2) or != 8 (float / uint32)", 80 * m)
    ck.rule("E12.size-accounts", "_serialized_size is at least the bytes _serialize writes plus the alignment slack, and the stream length stored in slot 0 (to which the result is "
            "truncated and which the stream reader consumes) covers every byte written; breaks for: containers with many scalars / arrays (truncated tail), e.g. CSR index arrays", 18 * m)
    ck.rule("E2.alloc-extent", "_deserialize allocates each element/index array with the element count and type that is then copied or decoded into it", 16 * m)
    ck.rule("E12.stream-frame", "the stream variants frame the byte vector exactly: writer emits data()/size() of the vector _serialize built; reader takes the first length word, "
            "rewinds by it, reads `length` bytes and forwards (FileMode tag, DT2, IT2) unchanged; breaks for: several objects in one stream (meta vectors)", 2)
    ck.rule("E12.mode-sets", "per container class the FileMode cases handled by write_out(FileMode, ostream) equal those handled by read_from(FileMode, istream), and both refuse "
            "every other mode; breaks for: the dropped mode of that class", 60)
    ck.rule("E12.mode-tags", "write_out/read_from resp. serialize<>/deserialize<> pass identical (FileMode tag, DT, IT) to _serialize<>/_deserialize<>; breaks for: every binary "
            "round trip of that class (tag) or any index/value not representable in the narrower type (DT/IT)", 28)
    ck.rule("E12.magic", "the header words a meta vector writes in front of its sub-vector dumps (magic number, block count) are the ones its reader consumes and requires", 12)
    ck.rule("E12.text-banner", "every '%%MatrixMarket ...' banner a writer emits is accepted by the reader of the same class and mode", 12)
    ck.rule("E12.size-line", "the size line of the MatrixMarket modes is emitted in the order the reader parses it (rows columns [nnz] resp. size 1); breaks for: every non-square matrix", 10)
    ck.rule("E2.entry-coordinates", "coordinate text modes (MatrixMarket coordinate): the row / column an entry line prints is Fr * <index over the native row extent> + <offset in "
            "[0, Fr)> + 1 resp. Fc * <stored column index of the same non-zero> + <offset in [0, Fc)> + 1, with Fr / Fc the factors by which the extents streamed in the "
            "size line of the same writer scale the native extents (BlockHeight / BlockWidth for blocked matrices, 1 otherwise), and the value printed is the "
            "(row offset, column offset) entry of the block; breaks for: blocked matrices with BlockHeight != BlockWidth, any matrix when row and column are exchanged", 4)
    ck.rule("E7.format-stateless", "the value-formatting helpers the text writers print through (functions of kernel/util/string.hpp - outside the anchored files, but every "
            "fm_mtx / fm_exp writer relies on stringify_fp_sci - and any other repository function with a static local reached within three calls from write_out(FileMode, "
            "ostream)) return a text that depends on their arguments only: no mutable static / thread_local local, or, for a static stream, content and every sticky "
            "formatting property the function sets are re-established on every path to the insertion; breaks for: a text write after any call with another precision / sign "
            "option in the same thread (two writes of one object differ, the object read back differs in the printed digits)", 1)
    ck.rule("E2.linearisation", "a text reader that splits a running entry counter i into (i / E, i % E) divides by the extent of the dimension that receives i % E, and "
            "that is the dimension the writer of the same mode runs fastest (both extents taken from the parsed size line by role); blocked vectors divide the parsed length by "
            "the factor the writer multiplies with; breaks for: every non-square dense matrix", 3)
    ck.rule("E2.rowptr-kind", "in a text reader every subscript of the row_ptr array is a row index (induction variable over [0,rows()), or rows() for the end slot) - never the ordinal "
            "of an iteration over the rows that happen to have entries - and entries of a keyed row container go to the row equal to the key; breaks for: matrices with empty rows", 3)
    ck.rule("E2.rowptr-coverage", "row_ptr is assigned on the whole of [0, rows()]: unconditionally in a loop over all rows plus the end slot; breaks for: matrices with empty rows / no entries", 1)
    ck.rule("E2.rowptr-value", "row_ptr[i] receives the running non-zero cursor that subscripts col_ind/val, which advances once per stored entry", 2)
    ck.rule("E12.checkpoint-layout", "CheckpointControl: the record [u64 id length][id][u64 data length][data] appended per object is the one _restore_checkpoint_data walks "
            "(offsets, widths, stride) and restore_object slices; the collected length equals the bytes appended; save/load(BinaryStream) frame the same number of bytes; "
            "breaks for: two or more objects in one checkpoint, or an object whose last byte is significant", 10)
    ck.rule("E12.combined-file", "DistFileIO::write_combined / read_combined (the file behind CheckpointControl::save/load(filename); kernel/util/dist_file_io.cpp, serial and - by parse "
            "with FEAT_HAVE_MPI - the MPI implementation): the reader consumes exactly the sequence of blocks the writer emits (header, per-rank size words, common block, "
            "process buffer): same order, byte counts (taken from the header words / size words the writer stored), access mode and guards; the header words the reader "
            "requires are the ones written; the file-size word covers the bytes written; breaks for: a common block whose size is not a multiple of an alignment the "
            "writer pads to, any non-empty common block when the two payloads are exchanged", 12)
    ck.rule("E7.load-state-reset", "every data member of CheckpointControl that the load path fills and restore_object reads is reset by clear_input() or overwritten "
            "unconditionally on every load (operator[]= / insert_or_assign / resize, not emplace / insert), so that no state of an earlier load survives; breaks for: one "
            "CheckpointControl reading two checkpoints in a row (load(A), clear_input(), load(B)) with an identifier at different offsets", 2)
    ck.rule("E7.reset-covers-state", "in the classes of the in-memory stream (BinaryStream and its buffer) clear() re-establishes every data member that some operation of the "
            "class evolves (content, read/write position) with the value a fresh object has, and a routine that refills the content wholesale resets first; breaks for: a "
            "stream object that is written or read, cleared (or re-filled by read_stream) and used again - the second object lands at the stale position", 4)
    ck.rule("E7.size-table-follows-array", "every member function of a LAFEM container that puts a freshly allocated array into this->_elements/_indices (push_back or "
            "replacement of a slot) records the extent of that allocation in the matching entry of _elements_size/_indices_size on every path through it; the serialiser, "
            "_serialized_size and clone copy exactly that many entries; breaks for: a sparse vector grown entry by entry past its allocation block and then persisted", 14)
    # (18 on the pinned tree; one obligation per allocation site, so de-duplicating constructor prologues into a helper lowers the count)
    ck.rule("E12.meta-checkpoint", "meta containers: set_checkpoint_data appends [u64 length of first][first][rest] and returns the bytes appended; restore_from_checkpoint_data reads "
            "that word, hands exactly [8, 8+length) to the same sub-object and the remainder to the rest; get_checkpoint_size covers it", 60)
    ck.rule("E12.length-width", "a length word read from a checkpoint stream is used in offset arithmetic at its full width (no narrowing to a 32-bit signed type); "
            "breaks for: a meta container whose first block serialises to 2^31 bytes or more", 9)
    ck.rule("E4.block-order", "meta containers write and read their blocks in the same order with the same recursion scheme (first, then rest; same FileMode argument); for meta "
            "matrices the k-th name of the index file is the file of the k-th block", 30)
    ck.rule("E12.pack-cases", "Pack::Intern::TypeHelper: encode and decode handle the same pack types, convert through the same buffer element type X_, and sizeof(X_) equals "
            "Pack::element_size of that pack type (which estimate_size/_serialized_size rely on); deduct maps sizeof(T) to a type of that size", 18)
    ck.rule("E2.pack-loops", "xencode/xdecode convert every i in [0,count) exactly once with the same i on both sides, in both byte-order branches, and return count*sizeof(X_)", 6)
    ck.rule("E1.pack-roles", "along Pack::encode/decode -> *_raw / lossless_* / lossy_* -> TypeHelper -> xencode/xdecode every forwarded argument keeps its role "
            "(count vs buffer bytes, buffer vs typed array, pack type), and encode and decode dispatch on the same conditions", 12)
    ck.rule("E7.slot-guard", "a direct this->_elements.at(k) / this->_indices.at(k) in write_out/read_from is dominated by a push_back to that vector or an emptiness early-out "
            "(the public accessors of the same class guard exactly this access); breaks for: vectors of length 0", 3)
    ck.rule("E7.nullable-deref", "every loop of an IO routine that subscripts the pointer of an accessor which returns nullptr for unallocated arrays "
            "(row_ptr/col_ind/val/elements/indices) has trip count zero in the array-free states the constructors establish (bound resolved through constant locals, "
            "conditional expressions and the scalar slot the bound accessor reads), or is only reachable on the non-empty edge of an emptiness test, or the arrays are "
            "allocated earlier in the same routine (helpers of the class the IO routine iterates through are analysed like the routine itself); breaks for: matrices without "
            "entries created by the (rows, columns) constructor, vectors of length 0", 12)
    # (16 on the pinned tree; obligations are grouped per innermost loop, so hoisting an accessor value out of an inner loop merges two of them)


def serializer_instances(facts):
    out = []
    for f in facts.functions:
        if f.tk != "pattern" and f.name == "_serialize" and re.match(r"^FEAT::LAFEM::Container<", f.cls) and len(f.params) == 2:
            out.append((f.cls, "<%s>" % targs_of(f.full)))
    return sorted(set(out))


def run_on(ck, facts, primary):
    bad = facts.errors_outside_repo()
    if bad:
        ck.incomplete("E12.segments", "driver TU does not compile: %s:%d %s" % (bad[0]["file"], bad[0]["line"], bad[0]["msg"]))
    for e in facts.errors_in_repo():
        ck.incomplete("E12.segments", "front-end error in the repository while instantiating the IO members: %s:%d %s" % (rel(e["file"]), e["line"], e["msg"]))
    insts = serializer_instances(facts)
    if len(insts) < 2:
        ck.incomplete("E12.segments", "fewer than two instantiations of Container::_serialize in the driver TU")
    for cls, targs in insts:
        check_container_serializer(ck, facts, "^" + re.escape(cls) + "$", targs)
    if primary:
        check_vocabulary(ck, facts)
        check_meta_vector_magic(ck, facts)
        check_text_headers(ck, facts)
        check_size_lines(ck, facts)
        check_entry_coordinates(ck, facts)
        check_format_state(ck, facts)
        check_linearisation(ck, facts)
        check_rowptr_builders(ck, facts)
        check_checkpoint_control(ck, facts)
        check_checkpoint_state(ck, facts)
        check_reset_state(ck, facts)
        check_size_tables(ck, facts)
        check_meta_checkpoints(ck, facts)
        check_meta_stream_recursion(ck, facts)
        check_meta_file_recursion(ck, facts)
        check_pack(ck, facts)
        check_empty_containers(ck, facts)
    else:
        check_rowptr_builders(ck, facts)
        check_size_lines(ck, facts)


def run(tier):
    ck = Check("C05", tier)
    thorough = tier != "quick"
    declare_rules(ck, thorough)
    facts = featlib.extract("tu/c05_io.cpp", files=FILES)
    ck.tu(facts)
    run_on(ck, facts, True)
    # combined checkpoint files: the serial implementation as compiled here, and the MPI implementation by parse (-DFEAT_HAVE_MPI)
    dio = featlib.repo_path("kernel/util/dist_file_io.cpp")
    for variant, mpi in (("serial", False), ("mpi", True)):
        fio = featlib.extract(dio, files=featlib.repo_path("kernel/util/dist_file_io"), mpi=mpi)
        ck.tu(fio)
        for e in fio.errors_in_repo():
            ck.incomplete("E12.combined-file", "%s: front-end error %s:%d %s" % (variant, rel(e["file"]), e["line"], e["msg"]))
        check_combined_files(ck, fio, variant)
    if thorough:
        # the same driver with the roles of the wide and the narrow types exchanged: float / uint32 containers serialised as double / uint64
        extra = ("-DC05_DT=float", "-DC05_IT=std::uint32_t", "-DC05_DT2=double", "-DC05_IT2=std::uint64_t")
        facts2 = featlib.extract("tu/c05_io.cpp", files=FILES, extra=extra)
        ck.tu(facts2)
        run_on(ck, facts2, False)
    ck.assume("well-formed containers: class invariant _elements.size()==_elements_size.size(), _indices.size()==_indices_size.size(); a vector whose arrays are unallocated has size()/used_elements() == 0")
    ck.assume("text readers are judged on the files the writers of the same class produce (one entry per line, no duplicates); malformed input is C11's subject")
    ck.assume("zlib / zfp branches of Pack are not configured in this build: the packed branches of _serialize/_deserialize are compared structurally only (same calls, same roles)")
    expl = ("Static stream-layout agreement (engine E12) on the resolved program produced by clang for tu/c05_io.cpp: the cursor variables of Container::_serialize, _deserialize and "
            "_serialized_size are interpreted abstractly (positions as symbolic sums over the array counts, typed buffer views, alignment steps) on all four compression branches and the "
            "writer's and reader's header-slot bindings and segment sequences are compared; byte accounting of the allocation and of the length word; FileMode vocabularies and "
            "(tag, DT, IT) triples of all container classes; magic words and banners of the meta containers; index kinds and coverage of row_ptr in the MatrixMarket reader; record "
            "layout of CheckpointControl and of the meta containers' checkpoint recursion; Pack case tables, loops and argument roles; emptiness guards of IO routines; block sequence of DistFileIO::write_combined / read_combined (serial and, parsed with FEAT_HAVE_MPI, the MPI implementation); scalar row / column coordinates of the entry lines of the coordinate text modes against the extents announced in the size line; absence of state surviving between calls in the value-formatting helpers (kernel/util/string.hpp) the text writers print through. "
            "Not decided: bit identity and printed precision of values, behaviour of zlib/zfp, duplicate or malformed entries in text files, entry lines of the array (dense) text modes beyond the counter split, "
            "file-name arithmetic of nested meta matrices beyond the instantiated block counts, the other DistFileIO routines (read/write_common, _sequence, _ordered) and the MPI library's own semantics of shared / ordered file pointers.")
    return ck.finish(expl)
